
(** val negb : bool -> bool **)

let negb = function
| true -> false
| false -> true

type nat =
| O
| S of nat

(** val fst : ('a1 * 'a2) -> 'a1 **)

let fst = function
| (x, _) -> x

(** val snd : ('a1 * 'a2) -> 'a2 **)

let snd = function
| (_, y) -> y

(** val length : 'a1 list -> nat **)

let rec length = function
| [] -> O
| _ :: l' -> S (length l')

(** val app : 'a1 list -> 'a1 list -> 'a1 list **)

let rec app l m =
  match l with
  | [] -> m
  | a :: l1 -> a :: (app l1 m)

type comparison =
| Eq
| Lt
| Gt

type uint =
| Nil
| D0 of uint
| D1 of uint
| D2 of uint
| D3 of uint
| D4 of uint
| D5 of uint
| D6 of uint
| D7 of uint
| D8 of uint
| D9 of uint

(** val revapp : uint -> uint -> uint **)

let rec revapp d d' =
  match d with
  | Nil -> d'
  | D0 d0 -> revapp d0 (D0 d')
  | D1 d0 -> revapp d0 (D1 d')
  | D2 d0 -> revapp d0 (D2 d')
  | D3 d0 -> revapp d0 (D3 d')
  | D4 d0 -> revapp d0 (D4 d')
  | D5 d0 -> revapp d0 (D5 d')
  | D6 d0 -> revapp d0 (D6 d')
  | D7 d0 -> revapp d0 (D7 d')
  | D8 d0 -> revapp d0 (D8 d')
  | D9 d0 -> revapp d0 (D9 d')

(** val rev : uint -> uint **)

let rev d =
  revapp d Nil

module Little =
 struct
  (** val double : uint -> uint **)

  let rec double = function
  | Nil -> Nil
  | D0 d0 -> D0 (double d0)
  | D1 d0 -> D2 (double d0)
  | D2 d0 -> D4 (double d0)
  | D3 d0 -> D6 (double d0)
  | D4 d0 -> D8 (double d0)
  | D5 d0 -> D0 (succ_double d0)
  | D6 d0 -> D2 (succ_double d0)
  | D7 d0 -> D4 (succ_double d0)
  | D8 d0 -> D6 (succ_double d0)
  | D9 d0 -> D8 (succ_double d0)

  (** val succ_double : uint -> uint **)

  and succ_double = function
  | Nil -> D1 Nil
  | D0 d0 -> D1 (double d0)
  | D1 d0 -> D3 (double d0)
  | D2 d0 -> D5 (double d0)
  | D3 d0 -> D7 (double d0)
  | D4 d0 -> D9 (double d0)
  | D5 d0 -> D1 (succ_double d0)
  | D6 d0 -> D3 (succ_double d0)
  | D7 d0 -> D5 (succ_double d0)
  | D8 d0 -> D7 (succ_double d0)
  | D9 d0 -> D9 (succ_double d0)
 end

module Coq__1 = struct
 (** val add : nat -> nat -> nat **)
 let rec add n0 m =
   match n0 with
   | O -> m
   | S p -> S (add p m)
end
include Coq__1

(** val divmod : nat -> nat -> nat -> nat -> nat * nat **)

let rec divmod x y q u =
  match x with
  | O -> (q, u)
  | S x' -> (match u with
             | O -> divmod x' y (S q) y
             | S u' -> divmod x' y q u')

(** val div : nat -> nat -> nat **)

let div x y = match y with
| O -> y
| S y' -> fst (divmod x y' O y')

type byte =
| X00
| X01
| X02
| X03
| X04
| X05
| X06
| X07
| X08
| X09
| X0a
| X0b
| X0c
| X0d
| X0e
| X0f
| X10
| X11
| X12
| X13
| X14
| X15
| X16
| X17
| X18
| X19
| X1a
| X1b
| X1c
| X1d
| X1e
| X1f
| X20
| X21
| X22
| X23
| X24
| X25
| X26
| X27
| X28
| X29
| X2a
| X2b
| X2c
| X2d
| X2e
| X2f
| X30
| X31
| X32
| X33
| X34
| X35
| X36
| X37
| X38
| X39
| X3a
| X3b
| X3c
| X3d
| X3e
| X3f
| X40
| X41
| X42
| X43
| X44
| X45
| X46
| X47
| X48
| X49
| X4a
| X4b
| X4c
| X4d
| X4e
| X4f
| X50
| X51
| X52
| X53
| X54
| X55
| X56
| X57
| X58
| X59
| X5a
| X5b
| X5c
| X5d
| X5e
| X5f
| X60
| X61
| X62
| X63
| X64
| X65
| X66
| X67
| X68
| X69
| X6a
| X6b
| X6c
| X6d
| X6e
| X6f
| X70
| X71
| X72
| X73
| X74
| X75
| X76
| X77
| X78
| X79
| X7a
| X7b
| X7c
| X7d
| X7e
| X7f
| X80
| X81
| X82
| X83
| X84
| X85
| X86
| X87
| X88
| X89
| X8a
| X8b
| X8c
| X8d
| X8e
| X8f
| X90
| X91
| X92
| X93
| X94
| X95
| X96
| X97
| X98
| X99
| X9a
| X9b
| X9c
| X9d
| X9e
| X9f
| Xa0
| Xa1
| Xa2
| Xa3
| Xa4
| Xa5
| Xa6
| Xa7
| Xa8
| Xa9
| Xaa
| Xab
| Xac
| Xad
| Xae
| Xaf
| Xb0
| Xb1
| Xb2
| Xb3
| Xb4
| Xb5
| Xb6
| Xb7
| Xb8
| Xb9
| Xba
| Xbb
| Xbc
| Xbd
| Xbe
| Xbf
| Xc0
| Xc1
| Xc2
| Xc3
| Xc4
| Xc5
| Xc6
| Xc7
| Xc8
| Xc9
| Xca
| Xcb
| Xcc
| Xcd
| Xce
| Xcf
| Xd0
| Xd1
| Xd2
| Xd3
| Xd4
| Xd5
| Xd6
| Xd7
| Xd8
| Xd9
| Xda
| Xdb
| Xdc
| Xdd
| Xde
| Xdf
| Xe0
| Xe1
| Xe2
| Xe3
| Xe4
| Xe5
| Xe6
| Xe7
| Xe8
| Xe9
| Xea
| Xeb
| Xec
| Xed
| Xee
| Xef
| Xf0
| Xf1
| Xf2
| Xf3
| Xf4
| Xf5
| Xf6
| Xf7
| Xf8
| Xf9
| Xfa
| Xfb
| Xfc
| Xfd
| Xfe
| Xff

(** val of_bits :
    (bool * (bool * (bool * (bool * (bool * (bool * (bool * bool))))))) ->
    byte **)

let of_bits = function
| (b0, p) ->
  if b0
  then let (b1, p0) = p in
       if b1
       then let (b2, p1) = p0 in
            if b2
            then let (b3, p2) = p1 in
                 if b3
                 then let (b4, p3) = p2 in
                      if b4
                      then let (b5, p4) = p3 in
                           if b5
                           then let (b6, b7) = p4 in
                                if b6
                                then if b7 then Xff else X7f
                                else if b7 then Xbf else X3f
                           else let (b6, b7) = p4 in
                                if b6
                                then if b7 then Xdf else X5f
                                else if b7 then X9f else X1f
                      else let (b5, p4) = p3 in
                           if b5
                           then let (b6, b7) = p4 in
                                if b6
                                then if b7 then Xef else X6f
                                else if b7 then Xaf else X2f
                           else let (b6, b7) = p4 in
                                if b6
                                then if b7 then Xcf else X4f
                                else if b7 then X8f else X0f
                 else let (b4, p3) = p2 in
                      if b4
                      then let (b5, p4) = p3 in
                           if b5
                           then let (b6, b7) = p4 in
                                if b6
                                then if b7 then Xf7 else X77
                                else if b7 then Xb7 else X37
                           else let (b6, b7) = p4 in
                                if b6
                                then if b7 then Xd7 else X57
                                else if b7 then X97 else X17
                      else let (b5, p4) = p3 in
                           if b5
                           then let (b6, b7) = p4 in
                                if b6
                                then if b7 then Xe7 else X67
                                else if b7 then Xa7 else X27
                           else let (b6, b7) = p4 in
                                if b6
                                then if b7 then Xc7 else X47
                                else if b7 then X87 else X07
            else let (b3, p2) = p1 in
                 if b3
                 then let (b4, p3) = p2 in
                      if b4
                      then let (b5, p4) = p3 in
                           if b5
                           then let (b6, b7) = p4 in
                                if b6
                                then if b7 then Xfb else X7b
                                else if b7 then Xbb else X3b
                           else let (b6, b7) = p4 in
                                if b6
                                then if b7 then Xdb else X5b
                                else if b7 then X9b else X1b
                      else let (b5, p4) = p3 in
                           if b5
                           then let (b6, b7) = p4 in
                                if b6
                                then if b7 then Xeb else X6b
                                else if b7 then Xab else X2b
                           else let (b6, b7) = p4 in
                                if b6
                                then if b7 then Xcb else X4b
                                else if b7 then X8b else X0b
                 else let (b4, p3) = p2 in
                      if b4
                      then let (b5, p4) = p3 in
                           if b5
                           then let (b6, b7) = p4 in
                                if b6
                                then if b7 then Xf3 else X73
                                else if b7 then Xb3 else X33
                           else let (b6, b7) = p4 in
                                if b6
                                then if b7 then Xd3 else X53
                                else if b7 then X93 else X13
                      else let (b5, p4) = p3 in
                           if b5
                           then let (b6, b7) = p4 in
                                if b6
                                then if b7 then Xe3 else X63
                                else if b7 then Xa3 else X23
                           else let (b6, b7) = p4 in
                                if b6
                                then if b7 then Xc3 else X43
                                else if b7 then X83 else X03
       else let (b2, p1) = p0 in
            if b2
            then let (b3, p2) = p1 in
                 if b3
                 then let (b4, p3) = p2 in
                      if b4
                      then let (b5, p4) = p3 in
                           if b5
                           then let (b6, b7) = p4 in
                                if b6
                                then if b7 then Xfd else X7d
                                else if b7 then Xbd else X3d
                           else let (b6, b7) = p4 in
                                if b6
                                then if b7 then Xdd else X5d
                                else if b7 then X9d else X1d
                      else let (b5, p4) = p3 in
                           if b5
                           then let (b6, b7) = p4 in
                                if b6
                                then if b7 then Xed else X6d
                                else if b7 then Xad else X2d
                           else let (b6, b7) = p4 in
                                if b6
                                then if b7 then Xcd else X4d
                                else if b7 then X8d else X0d
                 else let (b4, p3) = p2 in
                      if b4
                      then let (b5, p4) = p3 in
                           if b5
                           then let (b6, b7) = p4 in
                                if b6
                                then if b7 then Xf5 else X75
                                else if b7 then Xb5 else X35
                           else let (b6, b7) = p4 in
                                if b6
                                then if b7 then Xd5 else X55
                                else if b7 then X95 else X15
                      else let (b5, p4) = p3 in
                           if b5
                           then let (b6, b7) = p4 in
                                if b6
                                then if b7 then Xe5 else X65
                                else if b7 then Xa5 else X25
                           else let (b6, b7) = p4 in
                                if b6
                                then if b7 then Xc5 else X45
                                else if b7 then X85 else X05
            else let (b3, p2) = p1 in
                 if b3
                 then let (b4, p3) = p2 in
                      if b4
                      then let (b5, p4) = p3 in
                           if b5
                           then let (b6, b7) = p4 in
                                if b6
                                then if b7 then Xf9 else X79
                                else if b7 then Xb9 else X39
                           else let (b6, b7) = p4 in
                                if b6
                                then if b7 then Xd9 else X59
                                else if b7 then X99 else X19
                      else let (b5, p4) = p3 in
                           if b5
                           then let (b6, b7) = p4 in
                                if b6
                                then if b7 then Xe9 else X69
                                else if b7 then Xa9 else X29
                           else let (b6, b7) = p4 in
                                if b6
                                then if b7 then Xc9 else X49
                                else if b7 then X89 else X09
                 else let (b4, p3) = p2 in
                      if b4
                      then let (b5, p4) = p3 in
                           if b5
                           then let (b6, b7) = p4 in
                                if b6
                                then if b7 then Xf1 else X71
                                else if b7 then Xb1 else X31
                           else let (b6, b7) = p4 in
                                if b6
                                then if b7 then Xd1 else X51
                                else if b7 then X91 else X11
                      else let (b5, p4) = p3 in
                           if b5
                           then let (b6, b7) = p4 in
                                if b6
                                then if b7 then Xe1 else X61
                                else if b7 then Xa1 else X21
                           else let (b6, b7) = p4 in
                                if b6
                                then if b7 then Xc1 else X41
                                else if b7 then X81 else X01
  else let (b1, p0) = p in
       if b1
       then let (b2, p1) = p0 in
            if b2
            then let (b3, p2) = p1 in
                 if b3
                 then let (b4, p3) = p2 in
                      if b4
                      then let (b5, p4) = p3 in
                           if b5
                           then let (b6, b7) = p4 in
                                if b6
                                then if b7 then Xfe else X7e
                                else if b7 then Xbe else X3e
                           else let (b6, b7) = p4 in
                                if b6
                                then if b7 then Xde else X5e
                                else if b7 then X9e else X1e
                      else let (b5, p4) = p3 in
                           if b5
                           then let (b6, b7) = p4 in
                                if b6
                                then if b7 then Xee else X6e
                                else if b7 then Xae else X2e
                           else let (b6, b7) = p4 in
                                if b6
                                then if b7 then Xce else X4e
                                else if b7 then X8e else X0e
                 else let (b4, p3) = p2 in
                      if b4
                      then let (b5, p4) = p3 in
                           if b5
                           then let (b6, b7) = p4 in
                                if b6
                                then if b7 then Xf6 else X76
                                else if b7 then Xb6 else X36
                           else let (b6, b7) = p4 in
                                if b6
                                then if b7 then Xd6 else X56
                                else if b7 then X96 else X16
                      else let (b5, p4) = p3 in
                           if b5
                           then let (b6, b7) = p4 in
                                if b6
                                then if b7 then Xe6 else X66
                                else if b7 then Xa6 else X26
                           else let (b6, b7) = p4 in
                                if b6
                                then if b7 then Xc6 else X46
                                else if b7 then X86 else X06
            else let (b3, p2) = p1 in
                 if b3
                 then let (b4, p3) = p2 in
                      if b4
                      then let (b5, p4) = p3 in
                           if b5
                           then let (b6, b7) = p4 in
                                if b6
                                then if b7 then Xfa else X7a
                                else if b7 then Xba else X3a
                           else let (b6, b7) = p4 in
                                if b6
                                then if b7 then Xda else X5a
                                else if b7 then X9a else X1a
                      else let (b5, p4) = p3 in
                           if b5
                           then let (b6, b7) = p4 in
                                if b6
                                then if b7 then Xea else X6a
                                else if b7 then Xaa else X2a
                           else let (b6, b7) = p4 in
                                if b6
                                then if b7 then Xca else X4a
                                else if b7 then X8a else X0a
                 else let (b4, p3) = p2 in
                      if b4
                      then let (b5, p4) = p3 in
                           if b5
                           then let (b6, b7) = p4 in
                                if b6
                                then if b7 then Xf2 else X72
                                else if b7 then Xb2 else X32
                           else let (b6, b7) = p4 in
                                if b6
                                then if b7 then Xd2 else X52
                                else if b7 then X92 else X12
                      else let (b5, p4) = p3 in
                           if b5
                           then let (b6, b7) = p4 in
                                if b6
                                then if b7 then Xe2 else X62
                                else if b7 then Xa2 else X22
                           else let (b6, b7) = p4 in
                                if b6
                                then if b7 then Xc2 else X42
                                else if b7 then X82 else X02
       else let (b2, p1) = p0 in
            if b2
            then let (b3, p2) = p1 in
                 if b3
                 then let (b4, p3) = p2 in
                      if b4
                      then let (b5, p4) = p3 in
                           if b5
                           then let (b6, b7) = p4 in
                                if b6
                                then if b7 then Xfc else X7c
                                else if b7 then Xbc else X3c
                           else let (b6, b7) = p4 in
                                if b6
                                then if b7 then Xdc else X5c
                                else if b7 then X9c else X1c
                      else let (b5, p4) = p3 in
                           if b5
                           then let (b6, b7) = p4 in
                                if b6
                                then if b7 then Xec else X6c
                                else if b7 then Xac else X2c
                           else let (b6, b7) = p4 in
                                if b6
                                then if b7 then Xcc else X4c
                                else if b7 then X8c else X0c
                 else let (b4, p3) = p2 in
                      if b4
                      then let (b5, p4) = p3 in
                           if b5
                           then let (b6, b7) = p4 in
                                if b6
                                then if b7 then Xf4 else X74
                                else if b7 then Xb4 else X34
                           else let (b6, b7) = p4 in
                                if b6
                                then if b7 then Xd4 else X54
                                else if b7 then X94 else X14
                      else let (b5, p4) = p3 in
                           if b5
                           then let (b6, b7) = p4 in
                                if b6
                                then if b7 then Xe4 else X64
                                else if b7 then Xa4 else X24
                           else let (b6, b7) = p4 in
                                if b6
                                then if b7 then Xc4 else X44
                                else if b7 then X84 else X04
            else let (b3, p2) = p1 in
                 if b3
                 then let (b4, p3) = p2 in
                      if b4
                      then let (b5, p4) = p3 in
                           if b5
                           then let (b6, b7) = p4 in
                                if b6
                                then if b7 then Xf8 else X78
                                else if b7 then Xb8 else X38
                           else let (b6, b7) = p4 in
                                if b6
                                then if b7 then Xd8 else X58
                                else if b7 then X98 else X18
                      else let (b5, p4) = p3 in
                           if b5
                           then let (b6, b7) = p4 in
                                if b6
                                then if b7 then Xe8 else X68
                                else if b7 then Xa8 else X28
                           else let (b6, b7) = p4 in
                                if b6
                                then if b7 then Xc8 else X48
                                else if b7 then X88 else X08
                 else let (b4, p3) = p2 in
                      if b4
                      then let (b5, p4) = p3 in
                           if b5
                           then let (b6, b7) = p4 in
                                if b6
                                then if b7 then Xf0 else X70
                                else if b7 then Xb0 else X30
                           else let (b6, b7) = p4 in
                                if b6
                                then if b7 then Xd0 else X50
                                else if b7 then X90 else X10
                      else let (b5, p4) = p3 in
                           if b5
                           then let (b6, b7) = p4 in
                                if b6
                                then if b7 then Xe0 else X60
                                else if b7 then Xa0 else X20
                           else let (b6, b7) = p4 in
                                if b6
                                then if b7 then Xc0 else X40
                                else if b7 then X80 else X00

type positive =
| XI of positive
| XO of positive
| XH

type n =
| N0
| Npos of positive

type z =
| Z0
| Zpos of positive
| Zneg of positive

module Pos =
 struct
  type mask =
  | IsNul
  | IsPos of positive
  | IsNeg
 end

module Coq_Pos =
 struct
  (** val succ : positive -> positive **)

  let rec succ = function
  | XI p -> XO (succ p)
  | XO p -> XI p
  | XH -> XO XH

  (** val add : positive -> positive -> positive **)

  let rec add x y =
    match x with
    | XI p ->
      (match y with
       | XI q -> XO (add_carry p q)
       | XO q -> XI (add p q)
       | XH -> XO (succ p))
    | XO p ->
      (match y with
       | XI q -> XI (add p q)
       | XO q -> XO (add p q)
       | XH -> XI p)
    | XH -> (match y with
             | XI q -> XO (succ q)
             | XO q -> XI q
             | XH -> XO XH)

  (** val add_carry : positive -> positive -> positive **)

  and add_carry x y =
    match x with
    | XI p ->
      (match y with
       | XI q -> XI (add_carry p q)
       | XO q -> XO (add_carry p q)
       | XH -> XI (succ p))
    | XO p ->
      (match y with
       | XI q -> XO (add_carry p q)
       | XO q -> XI (add p q)
       | XH -> XO (succ p))
    | XH ->
      (match y with
       | XI q -> XI (succ q)
       | XO q -> XO (succ q)
       | XH -> XI XH)

  (** val pred_double : positive -> positive **)

  let rec pred_double = function
  | XI p -> XI (XO p)
  | XO p -> XI (pred_double p)
  | XH -> XH

  type mask = Pos.mask =
  | IsNul
  | IsPos of positive
  | IsNeg

  (** val succ_double_mask : mask -> mask **)

  let succ_double_mask = function
  | IsNul -> IsPos XH
  | IsPos p -> IsPos (XI p)
  | IsNeg -> IsNeg

  (** val double_mask : mask -> mask **)

  let double_mask = function
  | IsPos p -> IsPos (XO p)
  | x0 -> x0

  (** val double_pred_mask : positive -> mask **)

  let double_pred_mask = function
  | XI p -> IsPos (XO (XO p))
  | XO p -> IsPos (XO (pred_double p))
  | XH -> IsNul

  (** val sub_mask : positive -> positive -> mask **)

  let rec sub_mask x y =
    match x with
    | XI p ->
      (match y with
       | XI q -> double_mask (sub_mask p q)
       | XO q -> succ_double_mask (sub_mask p q)
       | XH -> IsPos (XO p))
    | XO p ->
      (match y with
       | XI q -> succ_double_mask (sub_mask_carry p q)
       | XO q -> double_mask (sub_mask p q)
       | XH -> IsPos (pred_double p))
    | XH -> (match y with
             | XH -> IsNul
             | _ -> IsNeg)

  (** val sub_mask_carry : positive -> positive -> mask **)

  and sub_mask_carry x y =
    match x with
    | XI p ->
      (match y with
       | XI q -> succ_double_mask (sub_mask_carry p q)
       | XO q -> double_mask (sub_mask p q)
       | XH -> IsPos (pred_double p))
    | XO p ->
      (match y with
       | XI q -> double_mask (sub_mask_carry p q)
       | XO q -> succ_double_mask (sub_mask_carry p q)
       | XH -> double_pred_mask p)
    | XH -> IsNeg

  (** val mul : positive -> positive -> positive **)

  let rec mul x y =
    match x with
    | XI p -> add y (XO (mul p y))
    | XO p -> XO (mul p y)
    | XH -> y

  (** val iter : ('a1 -> 'a1) -> 'a1 -> positive -> 'a1 **)

  let rec iter f x = function
  | XI n' -> f (iter f (iter f x n') n')
  | XO n' -> iter f (iter f x n') n'
  | XH -> f x

  (** val compare_cont : comparison -> positive -> positive -> comparison **)

  let rec compare_cont r x y =
    match x with
    | XI p ->
      (match y with
       | XI q -> compare_cont r p q
       | XO q -> compare_cont Gt p q
       | XH -> Gt)
    | XO p ->
      (match y with
       | XI q -> compare_cont Lt p q
       | XO q -> compare_cont r p q
       | XH -> Gt)
    | XH -> (match y with
             | XH -> r
             | _ -> Lt)

  (** val compare : positive -> positive -> comparison **)

  let compare =
    compare_cont Eq

  (** val eqb : positive -> positive -> bool **)

  let rec eqb p q =
    match p with
    | XI p0 -> (match q with
                | XI q0 -> eqb p0 q0
                | _ -> false)
    | XO p0 -> (match q with
                | XO q0 -> eqb p0 q0
                | _ -> false)
    | XH -> (match q with
             | XH -> true
             | _ -> false)

  (** val coq_Nsucc_double : n -> n **)

  let coq_Nsucc_double = function
  | N0 -> Npos XH
  | Npos p -> Npos (XI p)

  (** val coq_Ndouble : n -> n **)

  let coq_Ndouble = function
  | N0 -> N0
  | Npos p -> Npos (XO p)

  (** val coq_lor : positive -> positive -> positive **)

  let rec coq_lor p q =
    match p with
    | XI p0 ->
      (match q with
       | XI q0 -> XI (coq_lor p0 q0)
       | XO q0 -> XI (coq_lor p0 q0)
       | XH -> p)
    | XO p0 ->
      (match q with
       | XI q0 -> XI (coq_lor p0 q0)
       | XO q0 -> XO (coq_lor p0 q0)
       | XH -> XI p0)
    | XH -> (match q with
             | XO q0 -> XI q0
             | _ -> q)

  (** val coq_land : positive -> positive -> n **)

  let rec coq_land p q =
    match p with
    | XI p0 ->
      (match q with
       | XI q0 -> coq_Nsucc_double (coq_land p0 q0)
       | XO q0 -> coq_Ndouble (coq_land p0 q0)
       | XH -> Npos XH)
    | XO p0 ->
      (match q with
       | XI q0 -> coq_Ndouble (coq_land p0 q0)
       | XO q0 -> coq_Ndouble (coq_land p0 q0)
       | XH -> N0)
    | XH -> (match q with
             | XO _ -> N0
             | _ -> Npos XH)

  (** val coq_lxor : positive -> positive -> n **)

  let rec coq_lxor p q =
    match p with
    | XI p0 ->
      (match q with
       | XI q0 -> coq_Ndouble (coq_lxor p0 q0)
       | XO q0 -> coq_Nsucc_double (coq_lxor p0 q0)
       | XH -> Npos (XO p0))
    | XO p0 ->
      (match q with
       | XI q0 -> coq_Nsucc_double (coq_lxor p0 q0)
       | XO q0 -> coq_Ndouble (coq_lxor p0 q0)
       | XH -> Npos (XI p0))
    | XH ->
      (match q with
       | XI q0 -> Npos (XO q0)
       | XO q0 -> Npos (XI q0)
       | XH -> N0)

  (** val shiftl : positive -> n -> positive **)

  let shiftl p = function
  | N0 -> p
  | Npos n1 -> iter (fun x -> XO x) p n1

  (** val iter_op : ('a1 -> 'a1 -> 'a1) -> positive -> 'a1 -> 'a1 **)

  let rec iter_op op p a =
    match p with
    | XI p0 -> op a (iter_op op p0 (op a a))
    | XO p0 -> iter_op op p0 (op a a)
    | XH -> a

  (** val to_nat : positive -> nat **)

  let to_nat x =
    iter_op Coq__1.add x (S O)

  (** val of_succ_nat : nat -> positive **)

  let rec of_succ_nat = function
  | O -> XH
  | S x -> succ (of_succ_nat x)

  (** val to_little_uint : positive -> uint **)

  let rec to_little_uint = function
  | XI p0 -> Little.succ_double (to_little_uint p0)
  | XO p0 -> Little.double (to_little_uint p0)
  | XH -> D1 Nil

  (** val to_uint : positive -> uint **)

  let to_uint p =
    rev (to_little_uint p)
 end

module N =
 struct
  (** val succ_double : n -> n **)

  let succ_double = function
  | N0 -> Npos XH
  | Npos p -> Npos (XI p)

  (** val double : n -> n **)

  let double = function
  | N0 -> N0
  | Npos p -> Npos (XO p)

  (** val succ : n -> n **)

  let succ = function
  | N0 -> Npos XH
  | Npos p -> Npos (Coq_Pos.succ p)

  (** val add : n -> n -> n **)

  let add n0 m =
    match n0 with
    | N0 -> m
    | Npos p -> (match m with
                 | N0 -> n0
                 | Npos q -> Npos (Coq_Pos.add p q))

  (** val sub : n -> n -> n **)

  let sub n0 m =
    match n0 with
    | N0 -> N0
    | Npos n' ->
      (match m with
       | N0 -> n0
       | Npos m' ->
         (match Coq_Pos.sub_mask n' m' with
          | Coq_Pos.IsPos p -> Npos p
          | _ -> N0))

  (** val mul : n -> n -> n **)

  let mul n0 m =
    match n0 with
    | N0 -> N0
    | Npos p -> (match m with
                 | N0 -> N0
                 | Npos q -> Npos (Coq_Pos.mul p q))

  (** val compare : n -> n -> comparison **)

  let compare n0 m =
    match n0 with
    | N0 -> (match m with
             | N0 -> Eq
             | Npos _ -> Lt)
    | Npos n' -> (match m with
                  | N0 -> Gt
                  | Npos m' -> Coq_Pos.compare n' m')

  (** val eqb : n -> n -> bool **)

  let eqb n0 m =
    match n0 with
    | N0 -> (match m with
             | N0 -> true
             | Npos _ -> false)
    | Npos p -> (match m with
                 | N0 -> false
                 | Npos q -> Coq_Pos.eqb p q)

  (** val leb : n -> n -> bool **)

  let leb x y =
    match compare x y with
    | Gt -> false
    | _ -> true

  (** val ltb : n -> n -> bool **)

  let ltb x y =
    match compare x y with
    | Lt -> true
    | _ -> false

  (** val div2 : n -> n **)

  let div2 = function
  | N0 -> N0
  | Npos p0 -> (match p0 with
                | XI p -> Npos p
                | XO p -> Npos p
                | XH -> N0)

  (** val pos_div_eucl : positive -> n -> n * n **)

  let rec pos_div_eucl a b =
    match a with
    | XI a' ->
      let (q, r) = pos_div_eucl a' b in
      let r' = succ_double r in
      if leb b r' then ((succ_double q), (sub r' b)) else ((double q), r')
    | XO a' ->
      let (q, r) = pos_div_eucl a' b in
      let r' = double r in
      if leb b r' then ((succ_double q), (sub r' b)) else ((double q), r')
    | XH ->
      (match b with
       | N0 -> (N0, (Npos XH))
       | Npos p -> (match p with
                    | XH -> ((Npos XH), N0)
                    | _ -> (N0, (Npos XH))))

  (** val div_eucl : n -> n -> n * n **)

  let div_eucl a b =
    match a with
    | N0 -> (N0, N0)
    | Npos na -> (match b with
                  | N0 -> (N0, a)
                  | Npos _ -> pos_div_eucl na b)

  (** val div : n -> n -> n **)

  let div a b =
    fst (div_eucl a b)

  (** val modulo : n -> n -> n **)

  let modulo a b =
    snd (div_eucl a b)

  (** val coq_lor : n -> n -> n **)

  let coq_lor n0 m =
    match n0 with
    | N0 -> m
    | Npos p -> (match m with
                 | N0 -> n0
                 | Npos q -> Npos (Coq_Pos.coq_lor p q))

  (** val coq_land : n -> n -> n **)

  let coq_land n0 m =
    match n0 with
    | N0 -> N0
    | Npos p -> (match m with
                 | N0 -> N0
                 | Npos q -> Coq_Pos.coq_land p q)

  (** val coq_lxor : n -> n -> n **)

  let coq_lxor n0 m =
    match n0 with
    | N0 -> m
    | Npos p -> (match m with
                 | N0 -> n0
                 | Npos q -> Coq_Pos.coq_lxor p q)

  (** val shiftl : n -> n -> n **)

  let shiftl a n0 =
    match a with
    | N0 -> N0
    | Npos a0 -> Npos (Coq_Pos.shiftl a0 n0)

  (** val shiftr : n -> n -> n **)

  let shiftr a = function
  | N0 -> a
  | Npos p -> Coq_Pos.iter div2 a p

  (** val to_nat : n -> nat **)

  let to_nat = function
  | N0 -> O
  | Npos p -> Coq_Pos.to_nat p

  (** val of_nat : nat -> n **)

  let of_nat = function
  | O -> N0
  | S n' -> Npos (Coq_Pos.of_succ_nat n')

  (** val to_uint : n -> uint **)

  let to_uint = function
  | N0 -> D0 Nil
  | Npos p -> Coq_Pos.to_uint p
 end

module Z =
 struct
  (** val of_N : n -> z **)

  let of_N = function
  | N0 -> Z0
  | Npos p -> Zpos p
 end

(** val nth : nat -> 'a1 list -> 'a1 -> 'a1 **)

let rec nth n0 l default =
  match n0 with
  | O -> (match l with
          | [] -> default
          | x :: _ -> x)
  | S m -> (match l with
            | [] -> default
            | _ :: t -> nth m t default)

(** val last : 'a1 list -> 'a1 -> 'a1 **)

let rec last l d =
  match l with
  | [] -> d
  | a :: l0 -> (match l0 with
                | [] -> a
                | _ :: _ -> last l0 d)

(** val rev0 : 'a1 list -> 'a1 list **)

let rec rev0 = function
| [] -> []
| x :: l' -> app (rev0 l') (x :: [])

(** val concat : 'a1 list list -> 'a1 list **)

let rec concat = function
| [] -> []
| x :: l0 -> app x (concat l0)

(** val map : ('a1 -> 'a2) -> 'a1 list -> 'a2 list **)

let rec map f = function
| [] -> []
| a :: t -> (f a) :: (map f t)

(** val flat_map : ('a1 -> 'a2 list) -> 'a1 list -> 'a2 list **)

let rec flat_map f = function
| [] -> []
| x :: t -> app (f x) (flat_map f t)

(** val existsb : ('a1 -> bool) -> 'a1 list -> bool **)

let rec existsb f = function
| [] -> false
| a :: l0 -> (||) (f a) (existsb f l0)

(** val find : ('a1 -> bool) -> 'a1 list -> 'a1 option **)

let rec find f = function
| [] -> None
| x :: tl -> if f x then Some x else find f tl

(** val firstn : nat -> 'a1 list -> 'a1 list **)

let rec firstn n0 l =
  match n0 with
  | O -> []
  | S n1 -> (match l with
             | [] -> []
             | a :: l0 -> a :: (firstn n1 l0))

(** val skipn : nat -> 'a1 list -> 'a1 list **)

let rec skipn n0 l =
  match n0 with
  | O -> l
  | S n1 -> (match l with
             | [] -> []
             | _ :: l0 -> skipn n1 l0)

(** val repeat : 'a1 -> nat -> 'a1 list **)

let rec repeat x = function
| O -> []
| S k -> x :: (repeat x k)

(** val to_N : byte -> n **)

let to_N = function
| X00 -> N0
| X01 -> Npos XH
| X02 -> Npos (XO XH)
| X03 -> Npos (XI XH)
| X04 -> Npos (XO (XO XH))
| X05 -> Npos (XI (XO XH))
| X06 -> Npos (XO (XI XH))
| X07 -> Npos (XI (XI XH))
| X08 -> Npos (XO (XO (XO XH)))
| X09 -> Npos (XI (XO (XO XH)))
| X0a -> Npos (XO (XI (XO XH)))
| X0b -> Npos (XI (XI (XO XH)))
| X0c -> Npos (XO (XO (XI XH)))
| X0d -> Npos (XI (XO (XI XH)))
| X0e -> Npos (XO (XI (XI XH)))
| X0f -> Npos (XI (XI (XI XH)))
| X10 -> Npos (XO (XO (XO (XO XH))))
| X11 -> Npos (XI (XO (XO (XO XH))))
| X12 -> Npos (XO (XI (XO (XO XH))))
| X13 -> Npos (XI (XI (XO (XO XH))))
| X14 -> Npos (XO (XO (XI (XO XH))))
| X15 -> Npos (XI (XO (XI (XO XH))))
| X16 -> Npos (XO (XI (XI (XO XH))))
| X17 -> Npos (XI (XI (XI (XO XH))))
| X18 -> Npos (XO (XO (XO (XI XH))))
| X19 -> Npos (XI (XO (XO (XI XH))))
| X1a -> Npos (XO (XI (XO (XI XH))))
| X1b -> Npos (XI (XI (XO (XI XH))))
| X1c -> Npos (XO (XO (XI (XI XH))))
| X1d -> Npos (XI (XO (XI (XI XH))))
| X1e -> Npos (XO (XI (XI (XI XH))))
| X1f -> Npos (XI (XI (XI (XI XH))))
| X20 -> Npos (XO (XO (XO (XO (XO XH)))))
| X21 -> Npos (XI (XO (XO (XO (XO XH)))))
| X22 -> Npos (XO (XI (XO (XO (XO XH)))))
| X23 -> Npos (XI (XI (XO (XO (XO XH)))))
| X24 -> Npos (XO (XO (XI (XO (XO XH)))))
| X25 -> Npos (XI (XO (XI (XO (XO XH)))))
| X26 -> Npos (XO (XI (XI (XO (XO XH)))))
| X27 -> Npos (XI (XI (XI (XO (XO XH)))))
| X28 -> Npos (XO (XO (XO (XI (XO XH)))))
| X29 -> Npos (XI (XO (XO (XI (XO XH)))))
| X2a -> Npos (XO (XI (XO (XI (XO XH)))))
| X2b -> Npos (XI (XI (XO (XI (XO XH)))))
| X2c -> Npos (XO (XO (XI (XI (XO XH)))))
| X2d -> Npos (XI (XO (XI (XI (XO XH)))))
| X2e -> Npos (XO (XI (XI (XI (XO XH)))))
| X2f -> Npos (XI (XI (XI (XI (XO XH)))))
| X30 -> Npos (XO (XO (XO (XO (XI XH)))))
| X31 -> Npos (XI (XO (XO (XO (XI XH)))))
| X32 -> Npos (XO (XI (XO (XO (XI XH)))))
| X33 -> Npos (XI (XI (XO (XO (XI XH)))))
| X34 -> Npos (XO (XO (XI (XO (XI XH)))))
| X35 -> Npos (XI (XO (XI (XO (XI XH)))))
| X36 -> Npos (XO (XI (XI (XO (XI XH)))))
| X37 -> Npos (XI (XI (XI (XO (XI XH)))))
| X38 -> Npos (XO (XO (XO (XI (XI XH)))))
| X39 -> Npos (XI (XO (XO (XI (XI XH)))))
| X3a -> Npos (XO (XI (XO (XI (XI XH)))))
| X3b -> Npos (XI (XI (XO (XI (XI XH)))))
| X3c -> Npos (XO (XO (XI (XI (XI XH)))))
| X3d -> Npos (XI (XO (XI (XI (XI XH)))))
| X3e -> Npos (XO (XI (XI (XI (XI XH)))))
| X3f -> Npos (XI (XI (XI (XI (XI XH)))))
| X40 -> Npos (XO (XO (XO (XO (XO (XO XH))))))
| X41 -> Npos (XI (XO (XO (XO (XO (XO XH))))))
| X42 -> Npos (XO (XI (XO (XO (XO (XO XH))))))
| X43 -> Npos (XI (XI (XO (XO (XO (XO XH))))))
| X44 -> Npos (XO (XO (XI (XO (XO (XO XH))))))
| X45 -> Npos (XI (XO (XI (XO (XO (XO XH))))))
| X46 -> Npos (XO (XI (XI (XO (XO (XO XH))))))
| X47 -> Npos (XI (XI (XI (XO (XO (XO XH))))))
| X48 -> Npos (XO (XO (XO (XI (XO (XO XH))))))
| X49 -> Npos (XI (XO (XO (XI (XO (XO XH))))))
| X4a -> Npos (XO (XI (XO (XI (XO (XO XH))))))
| X4b -> Npos (XI (XI (XO (XI (XO (XO XH))))))
| X4c -> Npos (XO (XO (XI (XI (XO (XO XH))))))
| X4d -> Npos (XI (XO (XI (XI (XO (XO XH))))))
| X4e -> Npos (XO (XI (XI (XI (XO (XO XH))))))
| X4f -> Npos (XI (XI (XI (XI (XO (XO XH))))))
| X50 -> Npos (XO (XO (XO (XO (XI (XO XH))))))
| X51 -> Npos (XI (XO (XO (XO (XI (XO XH))))))
| X52 -> Npos (XO (XI (XO (XO (XI (XO XH))))))
| X53 -> Npos (XI (XI (XO (XO (XI (XO XH))))))
| X54 -> Npos (XO (XO (XI (XO (XI (XO XH))))))
| X55 -> Npos (XI (XO (XI (XO (XI (XO XH))))))
| X56 -> Npos (XO (XI (XI (XO (XI (XO XH))))))
| X57 -> Npos (XI (XI (XI (XO (XI (XO XH))))))
| X58 -> Npos (XO (XO (XO (XI (XI (XO XH))))))
| X59 -> Npos (XI (XO (XO (XI (XI (XO XH))))))
| X5a -> Npos (XO (XI (XO (XI (XI (XO XH))))))
| X5b -> Npos (XI (XI (XO (XI (XI (XO XH))))))
| X5c -> Npos (XO (XO (XI (XI (XI (XO XH))))))
| X5d -> Npos (XI (XO (XI (XI (XI (XO XH))))))
| X5e -> Npos (XO (XI (XI (XI (XI (XO XH))))))
| X5f -> Npos (XI (XI (XI (XI (XI (XO XH))))))
| X60 -> Npos (XO (XO (XO (XO (XO (XI XH))))))
| X61 -> Npos (XI (XO (XO (XO (XO (XI XH))))))
| X62 -> Npos (XO (XI (XO (XO (XO (XI XH))))))
| X63 -> Npos (XI (XI (XO (XO (XO (XI XH))))))
| X64 -> Npos (XO (XO (XI (XO (XO (XI XH))))))
| X65 -> Npos (XI (XO (XI (XO (XO (XI XH))))))
| X66 -> Npos (XO (XI (XI (XO (XO (XI XH))))))
| X67 -> Npos (XI (XI (XI (XO (XO (XI XH))))))
| X68 -> Npos (XO (XO (XO (XI (XO (XI XH))))))
| X69 -> Npos (XI (XO (XO (XI (XO (XI XH))))))
| X6a -> Npos (XO (XI (XO (XI (XO (XI XH))))))
| X6b -> Npos (XI (XI (XO (XI (XO (XI XH))))))
| X6c -> Npos (XO (XO (XI (XI (XO (XI XH))))))
| X6d -> Npos (XI (XO (XI (XI (XO (XI XH))))))
| X6e -> Npos (XO (XI (XI (XI (XO (XI XH))))))
| X6f -> Npos (XI (XI (XI (XI (XO (XI XH))))))
| X70 -> Npos (XO (XO (XO (XO (XI (XI XH))))))
| X71 -> Npos (XI (XO (XO (XO (XI (XI XH))))))
| X72 -> Npos (XO (XI (XO (XO (XI (XI XH))))))
| X73 -> Npos (XI (XI (XO (XO (XI (XI XH))))))
| X74 -> Npos (XO (XO (XI (XO (XI (XI XH))))))
| X75 -> Npos (XI (XO (XI (XO (XI (XI XH))))))
| X76 -> Npos (XO (XI (XI (XO (XI (XI XH))))))
| X77 -> Npos (XI (XI (XI (XO (XI (XI XH))))))
| X78 -> Npos (XO (XO (XO (XI (XI (XI XH))))))
| X79 -> Npos (XI (XO (XO (XI (XI (XI XH))))))
| X7a -> Npos (XO (XI (XO (XI (XI (XI XH))))))
| X7b -> Npos (XI (XI (XO (XI (XI (XI XH))))))
| X7c -> Npos (XO (XO (XI (XI (XI (XI XH))))))
| X7d -> Npos (XI (XO (XI (XI (XI (XI XH))))))
| X7e -> Npos (XO (XI (XI (XI (XI (XI XH))))))
| X7f -> Npos (XI (XI (XI (XI (XI (XI XH))))))
| X80 -> Npos (XO (XO (XO (XO (XO (XO (XO XH)))))))
| X81 -> Npos (XI (XO (XO (XO (XO (XO (XO XH)))))))
| X82 -> Npos (XO (XI (XO (XO (XO (XO (XO XH)))))))
| X83 -> Npos (XI (XI (XO (XO (XO (XO (XO XH)))))))
| X84 -> Npos (XO (XO (XI (XO (XO (XO (XO XH)))))))
| X85 -> Npos (XI (XO (XI (XO (XO (XO (XO XH)))))))
| X86 -> Npos (XO (XI (XI (XO (XO (XO (XO XH)))))))
| X87 -> Npos (XI (XI (XI (XO (XO (XO (XO XH)))))))
| X88 -> Npos (XO (XO (XO (XI (XO (XO (XO XH)))))))
| X89 -> Npos (XI (XO (XO (XI (XO (XO (XO XH)))))))
| X8a -> Npos (XO (XI (XO (XI (XO (XO (XO XH)))))))
| X8b -> Npos (XI (XI (XO (XI (XO (XO (XO XH)))))))
| X8c -> Npos (XO (XO (XI (XI (XO (XO (XO XH)))))))
| X8d -> Npos (XI (XO (XI (XI (XO (XO (XO XH)))))))
| X8e -> Npos (XO (XI (XI (XI (XO (XO (XO XH)))))))
| X8f -> Npos (XI (XI (XI (XI (XO (XO (XO XH)))))))
| X90 -> Npos (XO (XO (XO (XO (XI (XO (XO XH)))))))
| X91 -> Npos (XI (XO (XO (XO (XI (XO (XO XH)))))))
| X92 -> Npos (XO (XI (XO (XO (XI (XO (XO XH)))))))
| X93 -> Npos (XI (XI (XO (XO (XI (XO (XO XH)))))))
| X94 -> Npos (XO (XO (XI (XO (XI (XO (XO XH)))))))
| X95 -> Npos (XI (XO (XI (XO (XI (XO (XO XH)))))))
| X96 -> Npos (XO (XI (XI (XO (XI (XO (XO XH)))))))
| X97 -> Npos (XI (XI (XI (XO (XI (XO (XO XH)))))))
| X98 -> Npos (XO (XO (XO (XI (XI (XO (XO XH)))))))
| X99 -> Npos (XI (XO (XO (XI (XI (XO (XO XH)))))))
| X9a -> Npos (XO (XI (XO (XI (XI (XO (XO XH)))))))
| X9b -> Npos (XI (XI (XO (XI (XI (XO (XO XH)))))))
| X9c -> Npos (XO (XO (XI (XI (XI (XO (XO XH)))))))
| X9d -> Npos (XI (XO (XI (XI (XI (XO (XO XH)))))))
| X9e -> Npos (XO (XI (XI (XI (XI (XO (XO XH)))))))
| X9f -> Npos (XI (XI (XI (XI (XI (XO (XO XH)))))))
| Xa0 -> Npos (XO (XO (XO (XO (XO (XI (XO XH)))))))
| Xa1 -> Npos (XI (XO (XO (XO (XO (XI (XO XH)))))))
| Xa2 -> Npos (XO (XI (XO (XO (XO (XI (XO XH)))))))
| Xa3 -> Npos (XI (XI (XO (XO (XO (XI (XO XH)))))))
| Xa4 -> Npos (XO (XO (XI (XO (XO (XI (XO XH)))))))
| Xa5 -> Npos (XI (XO (XI (XO (XO (XI (XO XH)))))))
| Xa6 -> Npos (XO (XI (XI (XO (XO (XI (XO XH)))))))
| Xa7 -> Npos (XI (XI (XI (XO (XO (XI (XO XH)))))))
| Xa8 -> Npos (XO (XO (XO (XI (XO (XI (XO XH)))))))
| Xa9 -> Npos (XI (XO (XO (XI (XO (XI (XO XH)))))))
| Xaa -> Npos (XO (XI (XO (XI (XO (XI (XO XH)))))))
| Xab -> Npos (XI (XI (XO (XI (XO (XI (XO XH)))))))
| Xac -> Npos (XO (XO (XI (XI (XO (XI (XO XH)))))))
| Xad -> Npos (XI (XO (XI (XI (XO (XI (XO XH)))))))
| Xae -> Npos (XO (XI (XI (XI (XO (XI (XO XH)))))))
| Xaf -> Npos (XI (XI (XI (XI (XO (XI (XO XH)))))))
| Xb0 -> Npos (XO (XO (XO (XO (XI (XI (XO XH)))))))
| Xb1 -> Npos (XI (XO (XO (XO (XI (XI (XO XH)))))))
| Xb2 -> Npos (XO (XI (XO (XO (XI (XI (XO XH)))))))
| Xb3 -> Npos (XI (XI (XO (XO (XI (XI (XO XH)))))))
| Xb4 -> Npos (XO (XO (XI (XO (XI (XI (XO XH)))))))
| Xb5 -> Npos (XI (XO (XI (XO (XI (XI (XO XH)))))))
| Xb6 -> Npos (XO (XI (XI (XO (XI (XI (XO XH)))))))
| Xb7 -> Npos (XI (XI (XI (XO (XI (XI (XO XH)))))))
| Xb8 -> Npos (XO (XO (XO (XI (XI (XI (XO XH)))))))
| Xb9 -> Npos (XI (XO (XO (XI (XI (XI (XO XH)))))))
| Xba -> Npos (XO (XI (XO (XI (XI (XI (XO XH)))))))
| Xbb -> Npos (XI (XI (XO (XI (XI (XI (XO XH)))))))
| Xbc -> Npos (XO (XO (XI (XI (XI (XI (XO XH)))))))
| Xbd -> Npos (XI (XO (XI (XI (XI (XI (XO XH)))))))
| Xbe -> Npos (XO (XI (XI (XI (XI (XI (XO XH)))))))
| Xbf -> Npos (XI (XI (XI (XI (XI (XI (XO XH)))))))
| Xc0 -> Npos (XO (XO (XO (XO (XO (XO (XI XH)))))))
| Xc1 -> Npos (XI (XO (XO (XO (XO (XO (XI XH)))))))
| Xc2 -> Npos (XO (XI (XO (XO (XO (XO (XI XH)))))))
| Xc3 -> Npos (XI (XI (XO (XO (XO (XO (XI XH)))))))
| Xc4 -> Npos (XO (XO (XI (XO (XO (XO (XI XH)))))))
| Xc5 -> Npos (XI (XO (XI (XO (XO (XO (XI XH)))))))
| Xc6 -> Npos (XO (XI (XI (XO (XO (XO (XI XH)))))))
| Xc7 -> Npos (XI (XI (XI (XO (XO (XO (XI XH)))))))
| Xc8 -> Npos (XO (XO (XO (XI (XO (XO (XI XH)))))))
| Xc9 -> Npos (XI (XO (XO (XI (XO (XO (XI XH)))))))
| Xca -> Npos (XO (XI (XO (XI (XO (XO (XI XH)))))))
| Xcb -> Npos (XI (XI (XO (XI (XO (XO (XI XH)))))))
| Xcc -> Npos (XO (XO (XI (XI (XO (XO (XI XH)))))))
| Xcd -> Npos (XI (XO (XI (XI (XO (XO (XI XH)))))))
| Xce -> Npos (XO (XI (XI (XI (XO (XO (XI XH)))))))
| Xcf -> Npos (XI (XI (XI (XI (XO (XO (XI XH)))))))
| Xd0 -> Npos (XO (XO (XO (XO (XI (XO (XI XH)))))))
| Xd1 -> Npos (XI (XO (XO (XO (XI (XO (XI XH)))))))
| Xd2 -> Npos (XO (XI (XO (XO (XI (XO (XI XH)))))))
| Xd3 -> Npos (XI (XI (XO (XO (XI (XO (XI XH)))))))
| Xd4 -> Npos (XO (XO (XI (XO (XI (XO (XI XH)))))))
| Xd5 -> Npos (XI (XO (XI (XO (XI (XO (XI XH)))))))
| Xd6 -> Npos (XO (XI (XI (XO (XI (XO (XI XH)))))))
| Xd7 -> Npos (XI (XI (XI (XO (XI (XO (XI XH)))))))
| Xd8 -> Npos (XO (XO (XO (XI (XI (XO (XI XH)))))))
| Xd9 -> Npos (XI (XO (XO (XI (XI (XO (XI XH)))))))
| Xda -> Npos (XO (XI (XO (XI (XI (XO (XI XH)))))))
| Xdb -> Npos (XI (XI (XO (XI (XI (XO (XI XH)))))))
| Xdc -> Npos (XO (XO (XI (XI (XI (XO (XI XH)))))))
| Xdd -> Npos (XI (XO (XI (XI (XI (XO (XI XH)))))))
| Xde -> Npos (XO (XI (XI (XI (XI (XO (XI XH)))))))
| Xdf -> Npos (XI (XI (XI (XI (XI (XO (XI XH)))))))
| Xe0 -> Npos (XO (XO (XO (XO (XO (XI (XI XH)))))))
| Xe1 -> Npos (XI (XO (XO (XO (XO (XI (XI XH)))))))
| Xe2 -> Npos (XO (XI (XO (XO (XO (XI (XI XH)))))))
| Xe3 -> Npos (XI (XI (XO (XO (XO (XI (XI XH)))))))
| Xe4 -> Npos (XO (XO (XI (XO (XO (XI (XI XH)))))))
| Xe5 -> Npos (XI (XO (XI (XO (XO (XI (XI XH)))))))
| Xe6 -> Npos (XO (XI (XI (XO (XO (XI (XI XH)))))))
| Xe7 -> Npos (XI (XI (XI (XO (XO (XI (XI XH)))))))
| Xe8 -> Npos (XO (XO (XO (XI (XO (XI (XI XH)))))))
| Xe9 -> Npos (XI (XO (XO (XI (XO (XI (XI XH)))))))
| Xea -> Npos (XO (XI (XO (XI (XO (XI (XI XH)))))))
| Xeb -> Npos (XI (XI (XO (XI (XO (XI (XI XH)))))))
| Xec -> Npos (XO (XO (XI (XI (XO (XI (XI XH)))))))
| Xed -> Npos (XI (XO (XI (XI (XO (XI (XI XH)))))))
| Xee -> Npos (XO (XI (XI (XI (XO (XI (XI XH)))))))
| Xef -> Npos (XI (XI (XI (XI (XO (XI (XI XH)))))))
| Xf0 -> Npos (XO (XO (XO (XO (XI (XI (XI XH)))))))
| Xf1 -> Npos (XI (XO (XO (XO (XI (XI (XI XH)))))))
| Xf2 -> Npos (XO (XI (XO (XO (XI (XI (XI XH)))))))
| Xf3 -> Npos (XI (XI (XO (XO (XI (XI (XI XH)))))))
| Xf4 -> Npos (XO (XO (XI (XO (XI (XI (XI XH)))))))
| Xf5 -> Npos (XI (XO (XI (XO (XI (XI (XI XH)))))))
| Xf6 -> Npos (XO (XI (XI (XO (XI (XI (XI XH)))))))
| Xf7 -> Npos (XI (XI (XI (XO (XI (XI (XI XH)))))))
| Xf8 -> Npos (XO (XO (XO (XI (XI (XI (XI XH)))))))
| Xf9 -> Npos (XI (XO (XO (XI (XI (XI (XI XH)))))))
| Xfa -> Npos (XO (XI (XO (XI (XI (XI (XI XH)))))))
| Xfb -> Npos (XI (XI (XO (XI (XI (XI (XI XH)))))))
| Xfc -> Npos (XO (XO (XI (XI (XI (XI (XI XH)))))))
| Xfd -> Npos (XI (XO (XI (XI (XI (XI (XI XH)))))))
| Xfe -> Npos (XO (XI (XI (XI (XI (XI (XI XH)))))))
| Xff -> Npos (XI (XI (XI (XI (XI (XI (XI XH)))))))

type ascii =
| Ascii of bool * bool * bool * bool * bool * bool * bool * bool

(** val byte_of_ascii : ascii -> byte **)

let byte_of_ascii = function
| Ascii (b0, b1, b2, b3, b4, b5, b6, b7) ->
  of_bits (b0, (b1, (b2, (b3, (b4, (b5, (b6, b7)))))))

type string =
| EmptyString
| String of ascii * string

(** val list_ascii_of_string : string -> ascii list **)

let rec list_ascii_of_string = function
| EmptyString -> []
| String (ch, s0) -> ch :: (list_ascii_of_string s0)

(** val list_byte_of_string : string -> byte list **)

let list_byte_of_string s =
  map byte_of_ascii (list_ascii_of_string s)

type bytes = n list

(** val bs : string -> bytes **)

let bs s =
  map to_N (list_byte_of_string s)

(** val beqb : bytes -> bytes -> bool **)

let rec beqb a b =
  match a with
  | [] -> (match b with
           | [] -> true
           | _ :: _ -> false)
  | x :: a' ->
    (match b with
     | [] -> false
     | y :: b' -> (&&) (N.eqb x y) (beqb a' b'))

(** val memb : n -> bytes -> bool **)

let memb c l =
  existsb (N.eqb c) l

(** val mem_bytes : bytes -> bytes list -> bool **)

let mem_bytes k l =
  existsb (beqb k) l

(** val nUL : n **)

let nUL =
  N0

(** val sP : n **)

let sP =
  Npos (XO (XO (XO (XO (XO XH)))))

(** val sLASH : n **)

let sLASH =
  Npos (XI (XI (XI (XI (XO XH)))))

(** val oct_aux : nat -> n -> bytes -> bytes **)

let rec oct_aux fuel n0 acc =
  match fuel with
  | O -> acc
  | S f ->
    let acc' =
      (N.add (Npos (XO (XO (XO (XO (XI XH))))))
        (N.modulo n0 (Npos (XO (XO (XO XH)))))) :: acc
    in
    if N.ltb n0 (Npos (XO (XO (XO XH))))
    then acc'
    else oct_aux f (N.div n0 (Npos (XO (XO (XO XH))))) acc'

(** val pos_len : positive -> nat **)

let rec pos_len = function
| XI q -> S (pos_len q)
| XO q -> S (pos_len q)
| XH -> S O

(** val n_len : n -> nat **)

let n_len = function
| N0 -> S O
| Npos p -> pos_len p

(** val oct : n -> bytes **)

let oct n0 =
  oct_aux (n_len n0) n0 []

(** val mask32 : n **)

let mask32 =
  Npos (XI (XI (XI (XI (XI (XI (XI (XI (XI (XI (XI (XI (XI (XI (XI (XI (XI
    (XI (XI (XI (XI (XI (XI (XI (XI (XI (XI (XI (XI (XI (XI
    XH)))))))))))))))))))))))))))))))

(** val add32 : n -> n -> n **)

let add32 a b =
  N.coq_land (N.add a b) mask32

(** val rotl : n -> n -> n **)

let rotl k x =
  N.coq_land
    (N.coq_lor (N.shiftl x k)
      (N.shiftr x (N.sub (Npos (XO (XO (XO (XO (XO XH)))))) k))) mask32

(** val not32 : n -> n **)

let not32 x =
  N.coq_lxor x mask32

(** val word_of : n -> n -> n -> n -> n **)

let word_of b0 b1 b2 b3 =
  N.coq_lor (N.shiftl b0 (Npos (XO (XO (XO (XI XH))))))
    (N.coq_lor (N.shiftl b1 (Npos (XO (XO (XO (XO XH))))))
      (N.coq_lor (N.shiftl b2 (Npos (XO (XO (XO XH))))) b3))

(** val words_of : bytes -> n list **)

let rec words_of = function
| [] -> []
| b0 :: l0 ->
  (match l0 with
   | [] -> []
   | b1 :: l1 ->
     (match l1 with
      | [] -> []
      | b2 :: l2 ->
        (match l2 with
         | [] -> []
         | b3 :: r -> (word_of b0 b1 b2 b3) :: (words_of r))))

type st = { h0 : n; h1 : n; h2 : n; h3 : n; h4 : n }

(** val st_init : st **)

let st_init =
  { h0 = (Npos (XI (XO (XO (XO (XO (XO (XO (XO (XI (XI (XO (XO (XO (XI (XO
    (XO (XI (XO (XI (XO (XO (XO (XI (XO (XI (XI (XI (XO (XO (XI
    XH))))))))))))))))))))))))))))))); h1 = (Npos (XI (XO (XO (XI (XO (XO (XO
    (XI (XI (XI (XO (XI (XO (XI (XO (XI (XI (XO (XI (XI (XO (XO (XI (XI (XI
    (XI (XI (XI (XO (XI (XI XH)))))))))))))))))))))))))))))))); h2 = (Npos
    (XO (XI (XI (XI (XI (XI (XI (XI (XO (XO (XI (XI (XI (XO (XI (XI (XO (XI
    (XO (XI (XI (XI (XO (XI (XO (XO (XO (XI (XI (XO (XO
    XH)))))))))))))))))))))))))))))))); h3 = (Npos (XO (XI (XI (XO (XI (XI
    (XI (XO (XO (XO (XI (XO (XI (XO (XI (XO (XO (XI (XO (XO (XI (XI (XO (XO
    (XO (XO (XO (XO XH))))))))))))))))))))))))))))); h4 = (Npos (XO (XO (XO
    (XO (XI (XI (XI (XI (XI (XO (XO (XO (XO (XI (XI (XI (XO (XI (XO (XO (XI
    (XO (XI (XI (XI (XI (XO (XO (XO (XO (XI
    XH)))))))))))))))))))))))))))))))) }

(** val rounds :
    nat -> n -> n list -> n -> n -> n -> n -> n -> (((n * n) * n) * n) * n **)

let rec rounds t i w a b c d e =
  match t with
  | O -> ((((a, b), c), d), e)
  | S t' ->
    (match w with
     | [] -> ((((a, b), c), d), e)
     | w0 :: rest ->
       if N.ltb i (Npos (XO (XO (XI (XO XH)))))
       then let f = N.coq_lor (N.coq_land b c) (N.coq_land (not32 b) d) in
            let k = Npos (XI (XO (XO (XI (XI (XO (XO (XI (XI (XO (XO (XI (XI
              (XI (XI (XO (XO (XI (XO (XO (XO (XO (XO (XI (XO (XI (XO (XI (XI
              (XO XH))))))))))))))))))))))))))))))
            in
            let temp =
              add32
                (add32 (add32 (add32 (rotl (Npos (XI (XO XH))) a) f) e) k) w0
            in
            let wnew =
              rotl (Npos XH)
                (N.coq_lxor
                  (N.coq_lxor
                    (N.coq_lxor
                      (nth (S (S (S (S (S (S (S (S (S (S (S (S (S
                        O))))))))))))) w N0)
                      (nth (S (S (S (S (S (S (S (S O)))))))) w N0))
                    (nth (S (S O)) w N0)) w0)
            in
            rounds t' (N.add i (Npos XH)) (app rest (wnew :: [])) temp a
              (rotl (Npos (XO (XI (XI (XI XH))))) b) c d
       else if N.ltb i (Npos (XO (XO (XO (XI (XO XH))))))
            then let f = N.coq_lxor (N.coq_lxor b c) d in
                 let k = Npos (XI (XO (XO (XO (XO (XI (XO (XI (XI (XI (XO (XI
                   (XO (XI (XI (XI (XI (XO (XO (XI (XI (XO (XI (XI (XO (XI
                   (XI (XI (XO (XI XH))))))))))))))))))))))))))))))
                 in
                 let temp =
                   add32
                     (add32 (add32 (add32 (rotl (Npos (XI (XO XH))) a) f) e)
                       k) w0
                 in
                 let wnew =
                   rotl (Npos XH)
                     (N.coq_lxor
                       (N.coq_lxor
                         (N.coq_lxor
                           (nth (S (S (S (S (S (S (S (S (S (S (S (S (S
                             O))))))))))))) w N0)
                           (nth (S (S (S (S (S (S (S (S O)))))))) w N0))
                         (nth (S (S O)) w N0)) w0)
                 in
                 rounds t' (N.add i (Npos XH)) (app rest (wnew :: [])) temp a
                   (rotl (Npos (XO (XI (XI (XI XH))))) b) c d
            else if N.ltb i (Npos (XO (XO (XI (XI (XI XH))))))
                 then let f =
                        N.coq_lor
                          (N.coq_lor (N.coq_land b c) (N.coq_land b d))
                          (N.coq_land c d)
                      in
                      let k = Npos (XO (XO (XI (XI (XI (XO (XI (XI (XO (XO
                        (XI (XI (XI (XI (XO (XI (XI (XI (XO (XI (XI (XO (XO
                        (XO (XI (XI (XI (XI (XO (XO (XO
                        XH)))))))))))))))))))))))))))))))
                      in
                      let temp =
                        add32
                          (add32
                            (add32 (add32 (rotl (Npos (XI (XO XH))) a) f) e)
                            k) w0
                      in
                      let wnew =
                        rotl (Npos XH)
                          (N.coq_lxor
                            (N.coq_lxor
                              (N.coq_lxor
                                (nth (S (S (S (S (S (S (S (S (S (S (S (S (S
                                  O))))))))))))) w N0)
                                (nth (S (S (S (S (S (S (S (S O)))))))) w N0))
                              (nth (S (S O)) w N0)) w0)
                      in
                      rounds t' (N.add i (Npos XH)) (app rest (wnew :: []))
                        temp a (rotl (Npos (XO (XI (XI (XI XH))))) b) c d
                 else let f = N.coq_lxor (N.coq_lxor b c) d in
                      let k = Npos (XO (XI (XI (XO (XI (XO (XI (XI (XI (XO
                        (XO (XO (XO (XO (XI (XI (XO (XI (XO (XO (XO (XI (XI
                        (XO (XO (XI (XO (XI (XO (XO (XI
                        XH)))))))))))))))))))))))))))))))
                      in
                      let temp =
                        add32
                          (add32
                            (add32 (add32 (rotl (Npos (XI (XO XH))) a) f) e)
                            k) w0
                      in
                      let wnew =
                        rotl (Npos XH)
                          (N.coq_lxor
                            (N.coq_lxor
                              (N.coq_lxor
                                (nth (S (S (S (S (S (S (S (S (S (S (S (S (S
                                  O))))))))))))) w N0)
                                (nth (S (S (S (S (S (S (S (S O)))))))) w N0))
                              (nth (S (S O)) w N0)) w0)
                      in
                      rounds t' (N.add i (Npos XH)) (app rest (wnew :: []))
                        temp a (rotl (Npos (XO (XI (XI (XI XH))))) b) c d)

(** val compress : st -> bytes -> st **)

let compress s block =
  let (p, e) =
    rounds (S (S (S (S (S (S (S (S (S (S (S (S (S (S (S (S (S (S (S (S (S (S
      (S (S (S (S (S (S (S (S (S (S (S (S (S (S (S (S (S (S (S (S (S (S (S (S
      (S (S (S (S (S (S (S (S (S (S (S (S (S (S (S (S (S (S (S (S (S (S (S (S
      (S (S (S (S (S (S (S (S (S (S
      O))))))))))))))))))))))))))))))))))))))))))))))))))))))))))))))))))))))))))))))))
      N0 (words_of block) s.h0 s.h1 s.h2 s.h3 s.h4
  in
  let (p0, d) = p in
  let (p1, c) = p0 in
  let (a, b) = p1 in
  { h0 = (add32 s.h0 a); h1 = (add32 s.h1 b); h2 = (add32 s.h2 c); h3 =
  (add32 s.h3 d); h4 = (add32 s.h4 e) }

(** val blocks : nat -> bytes -> st -> st **)

let rec blocks fuel l s =
  match fuel with
  | O -> s
  | S f ->
    (match l with
     | [] -> s
     | _ :: _ ->
       blocks f
         (skipn (S (S (S (S (S (S (S (S (S (S (S (S (S (S (S (S (S (S (S (S
           (S (S (S (S (S (S (S (S (S (S (S (S (S (S (S (S (S (S (S (S (S (S
           (S (S (S (S (S (S (S (S (S (S (S (S (S (S (S (S (S (S (S (S (S (S
           O))))))))))))))))))))))))))))))))))))))))))))))))))))))))))))))))
           l)
         (compress s
           (firstn (S (S (S (S (S (S (S (S (S (S (S (S (S (S (S (S (S (S (S
             (S (S (S (S (S (S (S (S (S (S (S (S (S (S (S (S (S (S (S (S (S
             (S (S (S (S (S (S (S (S (S (S (S (S (S (S (S (S (S (S (S (S (S
             (S (S (S
             O))))))))))))))))))))))))))))))))))))))))))))))))))))))))))))))))
             l)))

(** val be_bytes : nat -> n -> bytes **)

let be_bytes k x =
  let rec go k0 x0 acc =
    match k0 with
    | O -> acc
    | S k' ->
      go k' (N.shiftr x0 (Npos (XO (XO (XO XH)))))
        ((N.coq_land x0 (Npos (XI (XI (XI (XI (XI (XI (XI XH))))))))) :: acc)
  in go k x []

(** val pad : bytes -> bytes **)

let pad l =
  let n0 = N.of_nat (length l) in
  let k =
    N.modulo
      (N.sub (Npos (XI (XI (XI (XO (XI (XI XH)))))))
        (N.modulo n0 (Npos (XO (XO (XO (XO (XO (XO XH))))))))) (Npos (XO (XO
      (XO (XO (XO (XO XH)))))))
  in
  app l
    (app ((Npos (XO (XO (XO (XO (XO (XO (XO XH)))))))) :: [])
      (app (repeat N0 (N.to_nat k))
        (be_bytes (S (S (S (S (S (S (S (S O))))))))
          (N.mul (Npos (XO (XO (XO XH)))) n0))))

(** val sha1 : bytes -> bytes **)

let sha1 l =
  let p = pad l in
  let s =
    blocks (S
      (div (length p) (S (S (S (S (S (S (S (S (S (S (S (S (S (S (S (S (S (S
        (S (S (S (S (S (S (S (S (S (S (S (S (S (S (S (S (S (S (S (S (S (S (S
        (S (S (S (S (S (S (S (S (S (S (S (S (S (S (S (S (S (S (S (S (S (S (S
        O)))))))))))))))))))))))))))))))))))))))))))))))))))))))))))))))))) p
      st_init
  in
  app (be_bytes (S (S (S (S O)))) s.h0)
    (app (be_bytes (S (S (S (S O)))) s.h1)
      (app (be_bytes (S (S (S (S O)))) s.h2)
        (app (be_bytes (S (S (S (S O)))) s.h3)
          (be_bytes (S (S (S (S O)))) s.h4))))

(** val uint_bytes : uint -> bytes **)

let rec uint_bytes = function
| Nil -> []
| D0 d0 -> (Npos (XO (XO (XO (XO (XI XH)))))) :: (uint_bytes d0)
| D1 d0 -> (Npos (XI (XO (XO (XO (XI XH)))))) :: (uint_bytes d0)
| D2 d0 -> (Npos (XO (XI (XO (XO (XI XH)))))) :: (uint_bytes d0)
| D3 d0 -> (Npos (XI (XI (XO (XO (XI XH)))))) :: (uint_bytes d0)
| D4 d0 -> (Npos (XO (XO (XI (XO (XI XH)))))) :: (uint_bytes d0)
| D5 d0 -> (Npos (XI (XO (XI (XO (XI XH)))))) :: (uint_bytes d0)
| D6 d0 -> (Npos (XO (XI (XI (XO (XI XH)))))) :: (uint_bytes d0)
| D7 d0 -> (Npos (XI (XI (XI (XO (XI XH)))))) :: (uint_bytes d0)
| D8 d0 -> (Npos (XO (XO (XO (XI (XI XH)))))) :: (uint_bytes d0)
| D9 d0 -> (Npos (XI (XO (XO (XI (XI XH)))))) :: (uint_bytes d0)

(** val dec_N : n -> bytes **)

let dec_N n0 =
  uint_bytes (N.to_uint n0)

(** val bcompare : bytes -> bytes -> comparison **)

let rec bcompare a b =
  match a with
  | [] -> (match b with
           | [] -> Eq
           | _ :: _ -> Lt)
  | x :: a' ->
    (match b with
     | [] -> Gt
     | y :: b' -> (match N.compare x y with
                   | Eq -> bcompare a' b'
                   | x0 -> x0))

(** val bleb : bytes -> bytes -> bool **)

let bleb a b =
  match bcompare a b with
  | Gt -> false
  | _ -> true

(** val insert : ('a1 -> 'a1 -> bool) -> 'a1 -> 'a1 list -> 'a1 list **)

let rec insert leb0 x = function
| [] -> x :: []
| y :: l' -> if leb0 x y then x :: (y :: l') else y :: (insert leb0 x l')

(** val sort : ('a1 -> 'a1 -> bool) -> 'a1 list -> 'a1 list **)

let rec sort leb0 = function
| [] -> []
| x :: l' -> insert leb0 x (sort leb0 l')

(** val lenN : bytes -> n **)

let rec lenN = function
| [] -> N0
| _ :: t -> N.succ (lenN t)

(** val git_header : bytes -> n -> bytes **)

let git_header ty len =
  app ty (app (sP :: []) (app (dec_N len) (nUL :: [])))

(** val from_parts : bytes -> bytes list -> bytes **)

let from_parts ty parts =
  let body = concat parts in app (git_header ty (lenN body)) body

(** val git_object : bytes -> bytes -> bytes **)

let git_object ty body =
  app (git_header ty (lenN body)) body

type ety =
| EFile
| EDir
| ERev

(** val ety_eqb : ety -> ety -> bool **)

let ety_eqb a b =
  match a with
  | EFile -> (match b with
              | EFile -> true
              | _ -> false)
  | EDir -> (match b with
             | EDir -> true
             | _ -> false)
  | ERev -> (match b with
             | ERev -> true
             | _ -> false)

type entry = { e_name : bytes; e_type : ety; e_target : bytes; e_perms : n }

(** val sort_key : entry -> bytes **)

let sort_key e =
  match e.e_type with
  | EDir -> app e.e_name (sLASH :: [])
  | _ -> e.e_name

(** val entry_leb : entry -> entry -> bool **)

let entry_leb a b =
  bleb (sort_key a) (sort_key b)

(** val entry_parts : entry -> bytes list **)

let entry_parts e =
  (oct e.e_perms) :: ((sP :: []) :: (e.e_name :: ((nUL :: []) :: (e.e_target :: []))))

(** val tree_parts : entry list -> bytes list **)

let tree_parts es =
  flat_map entry_parts (sort entry_leb es)

(** val dir_manifest : entry list -> bytes **)

let dir_manifest es =
  from_parts
    (bs (String ((Ascii (false, false, true, false, true, true, true,
      false)), (String ((Ascii (false, true, false, false, true, true, true,
      false)), (String ((Ascii (true, false, true, false, false, true, true,
      false)), (String ((Ascii (true, false, true, false, false, true, true,
      false)), EmptyString))))))))) (tree_parts es)

(** val nodup_names : bytes list -> entry list -> bool **)

let rec nodup_names seen = function
| [] -> true
| e :: es' ->
  if mem_bytes e.e_name seen
  then false
  else nodup_names (e.e_name :: seen) es'

(** val term : bytes -> bool -> n **)

let term l isdir =
  match l with
  | [] -> if isdir then sLASH else nUL
  | c :: _ -> c

(** val git_cmp : bytes -> bool -> bytes -> bool -> comparison **)

let rec git_cmp n1 d1 n2 d2 =
  match n1 with
  | [] -> N.compare (term n1 d1) (term n2 d2)
  | x :: r1 ->
    (match n2 with
     | [] -> N.compare (term n1 d1) (term n2 d2)
     | y :: r2 ->
       (match N.compare x y with
        | Eq -> git_cmp r1 d1 r2 d2
        | x0 -> x0))

(** val is_dir : entry -> bool **)

let is_dir e =
  ety_eqb e.e_type EDir

(** val git_entry_cmp : entry -> entry -> comparison **)

let git_entry_cmp a b =
  git_cmp a.e_name (is_dir a) b.e_name (is_dir b)

(** val git_leb : entry -> entry -> bool **)

let git_leb a b =
  match git_entry_cmp a b with
  | Gt -> false
  | _ -> true

(** val enc : entry -> bytes **)

let enc e =
  app (oct e.e_perms)
    (app (sP :: []) (app e.e_name (app (nUL :: []) e.e_target)))

(** val git_tree_payload : entry list -> bytes **)

let git_tree_payload es =
  concat (map enc (sort git_leb es))

(** val git_tree_object : entry list -> bytes **)

let git_tree_object es =
  git_object
    (bs (String ((Ascii (false, false, true, false, true, true, true,
      false)), (String ((Ascii (false, true, false, false, true, true, true,
      false)), (String ((Ascii (true, false, true, false, false, true, true,
      false)), (String ((Ascii (true, false, true, false, false, true, true,
      false)), EmptyString))))))))) (git_tree_payload es)

(** val pERMS_content : n **)

let pERMS_content =
  Npos (XO (XO (XI (XO (XO (XI (XO (XI (XI (XO (XO (XO (XO (XO (XO
    XH)))))))))))))))

(** val pERMS_executable_content : n **)

let pERMS_executable_content =
  Npos (XI (XO (XI (XI (XO (XI (XI (XI (XI (XO (XO (XO (XO (XO (XO
    XH)))))))))))))))

(** val pERMS_symlink : n **)

let pERMS_symlink =
  Npos (XO (XO (XO (XO (XO (XO (XO (XO (XO (XO (XO (XO (XO (XI (XO
    XH)))))))))))))))

(** val pERMS_directory : n **)

let pERMS_directory =
  Npos (XO (XO (XO (XO (XO (XO (XO (XO (XO (XO (XO (XO (XO (XO
    XH))))))))))))))

type fsnode =
| Reg of bytes * n
| Lnk of bytes
| Special of n
| FDir of (bytes * fsnode) list

(** val is_fdir : fsnode -> bool **)

let is_fdir = function
| FDir _ -> true
| _ -> false

(** val file_perms : n -> n **)

let file_perms mode =
  if N.eqb (N.coq_land mode (Npos (XI (XO (XO (XI (XO (XO XH)))))))) N0
  then pERMS_content
  else pERMS_executable_content

type cinfo = { ci_perms : n; ci_data : bytes; ci_skipped : bool }

type 'a fd_result =
| FdOk of 'a
| FdSymlinkTooLarge

(** val too_large : n option -> n -> bool **)

let too_large limit len =
  match limit with
  | Some l -> N.ltb l len
  | None -> false

(** val from_file : n option -> fsnode -> cinfo fd_result **)

let from_file limit = function
| Reg (data, mode) ->
  FdOk { ci_perms = (file_perms mode); ci_data = data; ci_skipped =
    (too_large limit (lenN data)) }
| Lnk text ->
  if too_large limit (lenN text)
  then FdSymlinkTooLarge
  else FdOk { ci_perms = pERMS_symlink; ci_data = text; ci_skipped = false }
| Special mode ->
  FdOk { ci_perms = (file_perms mode); ci_data = []; ci_skipped = false }
| FDir _ ->
  FdOk { ci_perms = pERMS_directory; ci_data = []; ci_skipped = false }

type filt =
| FAll
| FEmpty
| FNamed of bytes list * bool

(** val lower_byte : n -> n **)

let lower_byte c =
  if (&&) (N.leb (Npos (XI (XO (XO (XO (XO (XO XH))))))) c)
       (N.leb c (Npos (XO (XI (XO (XI (XI (XO XH))))))))
  then N.add c (Npos (XO (XO (XO (XO (XO XH))))))
  else c

(** val lower : bytes -> bytes **)

let lower b =
  map lower_byte b

(** val filt_dir : filt -> bytes -> bytes list -> bool **)

let filt_dir f name entries =
  match f with
  | FAll -> true
  | FEmpty -> (match entries with
               | [] -> false
               | _ :: _ -> true)
  | FNamed (ns, case_sensitive) ->
    if case_sensitive
    then negb (mem_bytes name ns)
    else negb (mem_bytes (lower name) (map lower ns))

type mtree =
| MLeaf of cinfo
| MNode of (bytes * mtree) list

(** val keys : mtree -> bytes list **)

let keys = function
| MLeaf _ -> []
| MNode ks -> map fst ks

(** val build :
    (bytes list -> (bytes * mtree) list -> (bytes * mtree) list) -> filt -> n
    option -> bytes list -> fsnode -> mtree fd_result **)

let rec build ord f limit path t = match t with
| FDir cs ->
  (match let rec kids = function
         | [] -> FdOk []
         | p :: r ->
           let (n0, c) = p in
           (match c with
            | Reg (_, _) ->
              (match from_file limit c with
               | FdOk ci ->
                 (match kids r with
                  | FdOk ks -> FdOk ((n0, (MLeaf ci)) :: ks)
                  | FdSymlinkTooLarge -> FdSymlinkTooLarge)
               | FdSymlinkTooLarge -> FdSymlinkTooLarge)
            | FDir ccs ->
              if filt_dir f n0 (map fst ccs)
              then (match build ord f limit (app path (n0 :: [])) c with
                    | FdOk m ->
                      (match kids r with
                       | FdOk ks -> FdOk ((n0, m) :: ks)
                       | FdSymlinkTooLarge -> FdSymlinkTooLarge)
                    | FdSymlinkTooLarge -> FdSymlinkTooLarge)
              else kids r
            | _ ->
              (match from_file limit c with
               | FdOk ci ->
                 (match kids r with
                  | FdOk ks -> FdOk ((n0, (MLeaf ci)) :: ks)
                  | FdSymlinkTooLarge -> FdSymlinkTooLarge)
               | FdSymlinkTooLarge -> FdSymlinkTooLarge))
         in kids cs with
   | FdOk ks -> FdOk (MNode (ord path ks))
   | FdSymlinkTooLarge -> FdSymlinkTooLarge)
| _ ->
  (match from_file limit t with
   | FdOk ci -> FdOk (MLeaf ci)
   | FdSymlinkTooLarge -> FdSymlinkTooLarge)

(** val prune2 : filt -> mtree -> mtree **)

let rec prune2 f m = match m with
| MLeaf _ -> m
| MNode ks ->
  MNode
    (let rec go = function
     | [] -> []
     | p :: r ->
       let (n0, c) = p in
       (match c with
        | MLeaf _ -> (n0, c) :: (go r)
        | MNode _ ->
          let c' = prune2 f c in
          if filt_dir f n0 (keys c') then (n0, c') :: (go r) else go r)
     in go ks)

(** val from_disk :
    (bytes list -> (bytes * mtree) list -> (bytes * mtree) list) -> filt -> n
    option -> fsnode -> mtree fd_result **)

let from_disk ord f limit t =
  match build ord f limit [] t with
  | FdOk m -> FdOk (prune2 f m)
  | FdSymlinkTooLarge -> FdSymlinkTooLarge

(** val blob_id : (bytes -> bytes) -> bytes -> bytes **)

let blob_id h d =
  h
    (git_object
      (bs (String ((Ascii (false, true, false, false, false, true, true,
        false)), (String ((Ascii (false, false, true, true, false, true,
        true, false)), (String ((Ascii (true, true, true, true, false, true,
        true, false)), (String ((Ascii (false, true, false, false, false,
        true, true, false)), EmptyString))))))))) d)

(** val mt_id : (bytes -> bytes) -> mtree -> bytes **)

let rec mt_id h = function
| MLeaf c -> blob_id h c.ci_data
| MNode ks ->
  h
    (dir_manifest
      (let rec ents = function
       | [] -> []
       | p :: r ->
         let (n0, c) = p in
         { e_name = n0; e_type =
         (match c with
          | MLeaf _ -> EFile
          | MNode _ -> EDir); e_target = (mt_id h c); e_perms =
         (match c with
          | MLeaf ci -> ci.ci_perms
          | MNode _ -> pERMS_directory) } :: (ents r)
       in ents ks))

(** val mt_entry : (bytes -> bytes) -> (bytes * mtree) -> entry **)

let mt_entry h p =
  { e_name = (fst p); e_type =
    (match snd p with
     | MLeaf _ -> EFile
     | MNode _ -> EDir); e_target = (mt_id h (snd p)); e_perms =
    (match snd p with
     | MLeaf ci -> ci.ci_perms
     | MNode _ -> pERMS_directory) }

(** val mt_get : bytes list -> mtree -> mtree option **)

let rec mt_get path m =
  match path with
  | [] -> Some m
  | n0 :: rest ->
    (match m with
     | MLeaf _ -> None
     | MNode ks ->
       (match find (fun p -> beqb n0 (fst p)) ks with
        | Some p -> let (_, c) = p in mt_get rest c
        | None -> None))

(** val node_id : (bytes -> bytes) -> fsnode -> bytes **)

let rec node_id h = function
| Reg (d, _) -> blob_id h d
| Lnk x -> blob_id h x
| Special _ -> blob_id h []
| FDir cs ->
  h
    (dir_manifest
      (let rec ents = function
       | [] -> []
       | p :: r ->
         let (n0, c) = p in
         { e_name = n0; e_type = (if is_fdir c then EDir else EFile);
         e_target = (node_id h c); e_perms =
         (match c with
          | Reg (_, mode) -> file_perms mode
          | Lnk _ -> pERMS_symlink
          | Special mode -> file_perms mode
          | FDir _ -> pERMS_directory) } :: (ents r)
       in ents cs))

(** val git_node_id : (bytes -> bytes) -> fsnode -> bytes **)

let rec git_node_id h = function
| Reg (d, _) -> blob_id h d
| Lnk x -> blob_id h x
| Special _ -> blob_id h []
| FDir cs ->
  h
    (git_tree_object
      (let rec ents = function
       | [] -> []
       | p :: r ->
         let (n0, c) = p in
         { e_name = n0; e_type = (if is_fdir c then EDir else EFile);
         e_target = (git_node_id h c); e_perms =
         (match c with
          | Reg (_, mode) ->
            if N.eqb
                 (N.coq_land mode (Npos (XI (XO (XO (XI (XO (XO XH)))))))) N0
            then Npos (XO (XO (XI (XO (XO (XI (XO (XI (XI (XO (XO (XO (XO (XO
                   (XO XH)))))))))))))))
            else Npos (XI (XO (XI (XI (XO (XI (XI (XI (XI (XO (XO (XO (XO (XO
                   (XO XH)))))))))))))))
          | Lnk _ ->
            Npos (XO (XO (XO (XO (XO (XO (XO (XO (XO (XO (XO (XO (XO (XI (XO
              XH)))))))))))))))
          | Special mode ->
            if N.eqb
                 (N.coq_land mode (Npos (XI (XO (XO (XI (XO (XO XH)))))))) N0
            then Npos (XO (XO (XI (XO (XO (XI (XO (XI (XI (XO (XO (XO (XO (XO
                   (XO XH)))))))))))))))
            else Npos (XI (XO (XI (XI (XO (XI (XI (XI (XI (XO (XO (XO (XO (XO
                   (XO XH)))))))))))))))
          | FDir _ ->
            Npos (XO (XO (XO (XO (XO (XO (XO (XO (XO (XO (XO (XO (XO (XO
              XH))))))))))))))) } :: (ents r)
       in ents cs))

type exported =
| XDir of bytes * entry list
| XContent of bytes * bytes
| XSkipped of bytes * n

(** val iter_tree :
    (bytes -> bytes) -> bytes list -> mtree -> exported list * bytes list **)

let rec iter_tree h seen m =
  let h5 = mt_id h m in
  if mem_bytes h5 seen
  then ([], seen)
  else (match m with
        | MLeaf c ->
          (((if c.ci_skipped
             then XSkipped (h5, (lenN c.ci_data))
             else XContent (h5, c.ci_data)) :: []), (h5 :: seen))
        | MNode ks ->
          let (xs, seen') =
            let rec go l seen0 =
              match l with
              | [] -> ([], seen0)
              | p :: r ->
                let (_, c) = p in
                let (x1, s1) = iter_tree h seen0 c in
                let (x2, s2) = go r s1 in ((app x1 x2), s2)
            in go ks (h5 :: seen)
          in
          (((XDir (h5, (map (mt_entry h) ks))) :: xs), seen'))

(** val export : (bytes -> bytes) -> mtree -> exported list **)

let export h m =
  fst (iter_tree h [] m)

(** val prune_empty : fsnode -> fsnode **)

let rec prune_empty t = match t with
| FDir cs ->
  FDir
    (let rec go = function
     | [] -> []
     | p :: r ->
       let (n0, c) = p in
       (match c with
        | FDir _ ->
          (match prune_empty c with
           | FDir children ->
             (match children with
              | [] -> go r
              | p0 :: l0 -> (n0, (FDir (p0 :: l0))) :: (go r))
           | x -> (n0, x) :: (go r))
        | _ -> (n0, c) :: (go r))
     in go cs)
| _ -> t

(** val prune_named : bytes list -> bool -> fsnode -> fsnode **)

let rec prune_named ns cs0 t = match t with
| FDir cs ->
  FDir
    (let rec go = function
     | [] -> []
     | p :: r ->
       let (n0, c) = p in
       (match c with
        | FDir _ ->
          if filt_dir (FNamed (ns, cs0)) n0 []
          then (n0, (prune_named ns cs0 c)) :: (go r)
          else go r
        | _ -> (n0, c) :: (go r))
     in go cs)
| _ -> t

(** val rstrip_slash_rev : bytes -> bytes **)

let rec rstrip_slash_rev r = match r with
| [] -> []
| c :: r' -> if N.eqb c sLASH then rstrip_slash_rev r' else r

(** val rstrip_slash : bytes -> bytes **)

let rstrip_slash l =
  rev0 (rstrip_slash_rev (rev0 l))

(** val norm_path : bytes -> bytes **)

let norm_path p = match p with
| [] -> p
| c :: rest ->
  (match rest with
   | [] -> p
   | _ :: _ -> if N.eqb (last p N0) sLASH then c :: (rstrip_slash rest) else p)

(** val wf_fs : fsnode -> bool **)

let rec wf_fs = function
| FDir cs ->
  (&&)
    (nodup_names []
      (map (fun p -> { e_name = (fst p); e_type = EFile; e_target = [];
        e_perms = N0 }) cs))
    (let rec all = function
     | [] -> true
     | p :: r ->
       let (n0, c) = p in
       (&&)
         ((&&)
           ((&&) ((&&) (negb (memb sLASH n0)) (negb (memb nUL n0)))
             (match n0 with
              | [] -> false
              | _ :: _ -> true)) (wf_fs c)) (all r)
     in all cs)
| _ -> true
