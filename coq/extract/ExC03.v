Require Extraction.
Require Import ExtrOcamlBasic.
From Coq Require Import ZArith NArith.
From SWH.lib Require Import Sha1.
From SWH.model Require Import Time Rel Rev.
Extraction "extract/C03/model.ml" rev_manifest rev_compute_hash revision_valid post_init effective_extra parse_commit wf_extra sha1 Z.of_N N.to_nat.
