(* Extraction of the C15 model.  ExtrOcamlBasic only; no Extract Constant /
   Extract Inductive of our own. *)
Require Extraction.
Require Import ExtrOcamlBasic.
From Coq Require Import ZArith NArith.
From SWH.lib Require Import Sha1 CutLast.
From SWH.model Require Import Meta.
Extraction "extract/C15/model.ml" mk_extid extid_git_object extid_valid parse_extid
  mk_emd mk_emd_in emd_git_object emd_valid parse_emd parse_ext parse_core normalize_date
  auth_word all_auth assoc sha1 Z.of_N N.to_nat.
