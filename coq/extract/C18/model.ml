
(** val negb : bool -> bool **)

let negb = function
| true -> false
| false -> true

type nat =
| O
| S of nat

type ('a, 'b) sum =
| Inl of 'a
| Inr of 'b

(** val fst : ('a1 * 'a2) -> 'a1 **)

let fst = function
| (x, _) -> x

(** val snd : ('a1 * 'a2) -> 'a2 **)

let snd = function
| (_, y) -> y

(** val app : 'a1 list -> 'a1 list -> 'a1 list **)

let rec app l m =
  match l with
  | [] -> m
  | a :: l1 -> a :: (app l1 m)

(** val add : nat -> nat -> nat **)

let rec add n0 m =
  match n0 with
  | O -> m
  | S p -> S (add p m)

type positive =
| XI of positive
| XO of positive
| XH

type n =
| N0
| Npos of positive

type z =
| Z0
| Zpos of positive
| Zneg of positive

(** val eqb : bool -> bool -> bool **)

let eqb b1 b2 =
  if b1 then b2 else if b2 then false else true

(** val map : ('a1 -> 'a2) -> 'a1 list -> 'a2 list **)

let rec map f = function
| [] -> []
| a :: t -> (f a) :: (map f t)

(** val flat_map : ('a1 -> 'a2 list) -> 'a1 list -> 'a2 list **)

let rec flat_map f = function
| [] -> []
| x :: t -> app (f x) (flat_map f t)

type argkind =
| AFile
| ADir
| ALinkFile
| ALinkDir
| AStdin
| AUrl
| AGitRepo

type otype =
| TAuto
| TContent
| TDirectory
| TOrigin
| TSnapshot

type verify =
| VNone
| VMatch
| VNonMatch

type cfg = { arg : argkind; ty : otype; deref : bool; fname : bool;
             recur : bool; ver : verify; excl : bool }

type obj =
| OPathContent
| OLinkText
| OTargetFile
| OEmptyContent
| OStdin
| ODirAtPath
| ODirAtLinkTarget
| OOrigin
| OSnapshot

type crash =
| CrTypeError
| CrNotADirectory
| CrFileNotFound
| CrNotGitRepository

type outcome =
| Print of obj * bool * bool * bool
| Usage
| Exit0
| Exit1
| Crash of crash

(** val is_dash : argkind -> bool **)

let is_dash = function
| AStdin -> true
| _ -> false

(** val isfile : argkind -> bool **)

let isfile = function
| AFile -> true
| ALinkFile -> true
| _ -> false

(** val isdir : argkind -> bool **)

let isdir = function
| ADir -> true
| ALinkDir -> true
| AGitRepo -> true
| _ -> false

(** val islink : argkind -> bool **)

let islink = function
| ALinkFile -> true
| ALinkDir -> true
| _ -> false

(** val has_scheme : argkind -> bool **)

let has_scheme = function
| AUrl -> true
| _ -> false

(** val is_git_repo : argkind -> bool **)

let is_git_repo = function
| AGitRepo -> true
| _ -> false

type pathref =
| PArg
| PReal

type ptag =
| PBytes
| PStr

type fskind =
| FReg
| FLnk
| FDir
| FMissing

(** val lstat : argkind -> pathref -> fskind **)

let lstat k p =
  match k with
  | AFile -> FReg
  | ADir -> FDir
  | ALinkFile -> (match p with
                  | PArg -> FLnk
                  | PReal -> FReg)
  | ALinkDir -> (match p with
                 | PArg -> FLnk
                 | PReal -> FDir)
  | AGitRepo -> FDir
  | _ -> FMissing

(** val stat : argkind -> fskind **)

let stat = function
| AFile -> FReg
| ALinkFile -> FReg
| AStdin -> FMissing
| AUrl -> FMissing
| _ -> FDir

(** val swhid_of_file : argkind -> pathref -> (obj, crash) sum **)

let swhid_of_file k p =
  match lstat k p with
  | FReg -> Inl (if islink k then OTargetFile else OPathContent)
  | FLnk -> Inl OLinkText
  | FDir -> Inl OEmptyContent
  | FMissing -> Inr CrFileNotFound

(** val swhid_of_dir : argkind -> ptag -> bool -> (obj, crash) sum **)

let swhid_of_dir k t excluding =
  match t with
  | PBytes ->
    (match stat k with
     | FReg -> Inr CrNotADirectory
     | FDir ->
       (match t with
        | PBytes -> Inl (if islink k then ODirAtLinkTarget else ODirAtPath)
        | PStr -> Inr CrTypeError)
     | _ -> Inr CrFileNotFound)
  | PStr ->
    if excluding
    then Inr CrTypeError
    else (match stat k with
          | FReg -> Inr CrNotADirectory
          | FDir ->
            (match t with
             | PBytes ->
               Inl (if islink k then ODirAtLinkTarget else ODirAtPath)
             | PStr -> Inr CrTypeError)
          | _ -> Inr CrFileNotFound)

(** val swhid_of_git_repo : argkind -> (obj, crash) sum **)

let swhid_of_git_repo k =
  if is_git_repo k then Inl OSnapshot else Inr CrNotGitRepository

(** val fs_object : cfg -> obj **)

let fs_object c =
  match c.arg with
  | AFile -> OPathContent
  | ALinkFile -> if c.deref then OTargetFile else OLinkText
  | ALinkDir -> if c.deref then ODirAtLinkTarget else OLinkText
  | AStdin -> OStdin
  | AUrl -> OOrigin
  | _ -> ODirAtPath

(** val otype_eqb : otype -> otype -> bool **)

let otype_eqb a b =
  match a with
  | TAuto -> (match b with
              | TAuto -> true
              | _ -> false)
  | TContent -> (match b with
                 | TContent -> true
                 | _ -> false)
  | TDirectory -> (match b with
                   | TDirectory -> true
                   | _ -> false)
  | TOrigin -> (match b with
                | TOrigin -> true
                | _ -> false)
  | TSnapshot -> (match b with
                  | TSnapshot -> true
                  | _ -> false)

(** val designated_obj : cfg -> obj **)

let designated_obj c =
  match c.arg with
  | AGitRepo -> (match c.ty with
                 | TSnapshot -> OSnapshot
                 | _ -> fs_object c)
  | _ -> fs_object c

(** val is_dir_obj : obj -> bool **)

let is_dir_obj = function
| ODirAtPath -> true
| ODirAtLinkTarget -> true
| _ -> false

(** val is_origin_obj : obj -> bool **)

let is_origin_obj = function
| OOrigin -> true
| _ -> false

(** val designated : cfg -> obj * bool **)

let designated c =
  ((designated_obj c), ((&&) c.excl (is_dir_obj (designated_obj c))))

(** val natural_type : obj -> otype **)

let natural_type = function
| ODirAtPath -> TDirectory
| ODirAtLinkTarget -> TDirectory
| OOrigin -> TOrigin
| OSnapshot -> TSnapshot
| _ -> TContent

(** val in_scope : cfg -> bool **)

let in_scope c =
  (||) (otype_eqb c.ty TAuto)
    (otype_eqb c.ty (natural_type (designated_obj c)))

(** val in_scope_literal : cfg -> bool **)

let in_scope_literal c =
  match c.ty with
  | TAuto -> true
  | TContent ->
    (match c.arg with
     | AFile -> true
     | ALinkFile -> true
     | AStdin -> true
     | _ -> false)
  | TDirectory ->
    (match c.arg with
     | ADir -> true
     | ALinkDir -> true
     | _ -> false)
  | TOrigin -> (match c.arg with
                | AUrl -> true
                | _ -> false)
  | TSnapshot -> (match c.arg with
                  | AGitRepo -> true
                  | _ -> false)

type variant = { v_realpath_str : bool; v_rectype_bug : bool;
                 v_auto_follows : bool; v_rec_follows : bool }

(** val current : variant **)

let current =
  { v_realpath_str = false; v_rectype_bug = false; v_auto_follows = false;
    v_rec_follows = false }

(** val old_realpath : variant **)

let old_realpath =
  { v_realpath_str = true; v_rectype_bug = false; v_auto_follows = false;
    v_rec_follows = false }

(** val old_rectype : variant **)

let old_rectype =
  { v_realpath_str = false; v_rectype_bug = true; v_auto_follows = false;
    v_rec_follows = false }

(** val old_autolink : variant **)

let old_autolink =
  { v_realpath_str = false; v_rectype_bug = false; v_auto_follows = true;
    v_rec_follows = false }

(** val old_recfollows : variant **)

let old_recfollows =
  { v_realpath_str = false; v_rectype_bug = false; v_auto_follows = false;
    v_rec_follows = true }

type res =
| ROk of obj * bool
| RUsage
| RCrash of crash

(** val lift : (obj, crash) sum -> bool -> res **)

let lift r excluded =
  match r with
  | Inl o -> ROk (o, excluded)
  | Inr c -> RCrash c

(** val detect : variant -> cfg -> otype option **)

let detect v c =
  let k = c.arg in
  (match c.ty with
   | TAuto ->
     if (||) ((||) (is_dash k) (isfile k))
          ((&&) ((&&) (negb v.v_auto_follows) (negb c.deref)) (islink k))
     then Some TContent
     else if isdir k
          then Some TDirectory
          else if has_scheme k then Some TOrigin else None
   | x -> Some x)

(** val identify_object : variant -> cfg -> res **)

let identify_object v c =
  let k = c.arg in
  (match detect v c with
   | Some t ->
     if is_dash k
     then ROk (OStdin, false)
     else (match t with
           | TAuto -> RUsage
           | TOrigin -> ROk (OOrigin, false)
           | TSnapshot -> lift (swhid_of_git_repo k) false
           | _ ->
             let follow = (&&) c.deref (islink k) in
             let p = if follow then PReal else PArg in
             let tag = if (&&) follow v.v_realpath_str then PStr else PBytes
             in
             (match t with
              | TContent -> lift (swhid_of_file k p) false
              | _ -> lift (swhid_of_dir k tag c.excl) c.excl))
   | None -> RUsage)

(** val obj_eqb : obj -> obj -> bool **)

let obj_eqb a b =
  match a with
  | OPathContent -> (match b with
                     | OPathContent -> true
                     | _ -> false)
  | OLinkText -> (match b with
                  | OLinkText -> true
                  | _ -> false)
  | OTargetFile -> (match b with
                    | OTargetFile -> true
                    | _ -> false)
  | OEmptyContent -> (match b with
                      | OEmptyContent -> true
                      | _ -> false)
  | OStdin -> (match b with
               | OStdin -> true
               | _ -> false)
  | ODirAtPath -> (match b with
                   | ODirAtPath -> true
                   | _ -> false)
  | ODirAtLinkTarget -> (match b with
                         | ODirAtLinkTarget -> true
                         | _ -> false)
  | OOrigin -> (match b with
                | OOrigin -> true
                | _ -> false)
  | OSnapshot -> (match b with
                  | OSnapshot -> true
                  | _ -> false)

(** val has_verify : cfg -> bool **)

let has_verify c =
  match c.ver with
  | VNone -> false
  | _ -> true

(** val verify_param_ok : cfg -> bool **)

let verify_param_ok c =
  match c.ver with
  | VMatch -> negb (is_origin_obj (fst (designated c)))
  | _ -> true

(** val given_equals : cfg -> obj -> bool -> bool **)

let given_equals c o excluded =
  match c.ver with
  | VMatch ->
    (&&) (obj_eqb o (fst (designated c))) (eqb excluded (snd (designated c)))
  | _ -> false

(** val rectype_rejects : variant -> otype -> bool **)

let rectype_rejects v t =
  if v.v_rectype_bug
  then negb (otype_eqb t TAuto)
  else negb ((||) (otype_eqb t TAuto) (otype_eqb t TDirectory))

(** val rec_isdir : variant -> cfg -> bool **)

let rec_isdir v c =
  if v.v_rec_follows
  then isdir c.arg
  else (&&) (isdir c.arg) ((||) c.deref (negb (islink c.arg)))

(** val identify_gen : variant -> cfg -> outcome **)

let identify_gen v c =
  if negb (verify_param_ok c)
  then Usage
  else let recursive = (&&) c.recur (rec_isdir v c) in
       if recursive
       then if has_verify c
            then Usage
            else if rectype_rejects v c.ty
                 then Usage
                 else (match swhid_of_dir c.arg PBytes c.excl with
                       | Inl o -> Print (o, c.excl, c.fname, true)
                       | Inr cr -> Crash cr)
       else (match identify_object v c with
             | ROk (o, ex) ->
               (match c.ver with
                | VNone -> Print (o, ex, c.fname, false)
                | _ -> if given_equals c o ex then Exit0 else Exit1)
             | RUsage -> Usage
             | RCrash cr -> Crash cr)

(** val identify_model : cfg -> outcome **)

let identify_model =
  identify_gen current

(** val identify_old_realpath : cfg -> outcome **)

let identify_old_realpath =
  identify_gen old_realpath

(** val identify_old_rectype : cfg -> outcome **)

let identify_old_rectype =
  identify_gen old_rectype

(** val identify_old_autolink : cfg -> outcome **)

let identify_old_autolink =
  identify_gen old_autolink

(** val identify_old_recfollows : cfg -> outcome **)

let identify_old_recfollows =
  identify_gen old_recfollows

(** val rec_effective : cfg -> bool **)

let rec_effective c =
  (&&) c.recur (is_dir_obj (fs_object c))

(** val type_is_auto_or_directory : otype -> bool **)

let type_is_auto_or_directory = function
| TAuto -> true
| TDirectory -> true
| _ -> false

(** val spec : cfg -> outcome **)

let spec c =
  let (o, ex) = designated c in
  if match c.ver with
     | VMatch -> is_origin_obj o
     | _ -> false
  then Usage
  else if rec_effective c
       then if has_verify c
            then Usage
            else if negb (type_is_auto_or_directory c.ty)
                 then Usage
                 else Print (o, ex, c.fname, true)
       else (match c.ver with
             | VNone -> Print (o, ex, c.fname, false)
             | VMatch -> Exit0
             | VNonMatch -> Exit1)

(** val spec_strict : cfg -> outcome **)

let spec_strict c =
  let (o, ex) = designated c in
  if (&&) c.recur (has_verify c)
  then Usage
  else if (&&) c.recur (negb (type_is_auto_or_directory c.ty))
       then Usage
       else if (&&) c.recur (is_dir_obj o)
            then Print (o, ex, c.fname, true)
            else (match c.ver with
                  | VNone -> Print (o, ex, c.fname, false)
                  | VMatch -> Exit0
                  | VNonMatch -> Exit1)

(** val all_kinds : argkind list **)

let all_kinds =
  AFile :: (ADir :: (ALinkFile :: (ALinkDir :: (AStdin :: (AUrl :: (AGitRepo :: []))))))

(** val all_types : otype list **)

let all_types =
  TAuto :: (TContent :: (TDirectory :: (TOrigin :: (TSnapshot :: []))))

(** val all_bools : bool list **)

let all_bools =
  true :: (false :: [])

(** val all_verifies : verify list **)

let all_verifies =
  VNone :: (VMatch :: (VNonMatch :: []))

(** val all_cfgs : cfg list **)

let all_cfgs =
  flat_map (fun k ->
    flat_map (fun t ->
      flat_map (fun d ->
        flat_map (fun f ->
          flat_map (fun r ->
            flat_map (fun v ->
              map (fun x -> { arg = k; ty = t; deref = d; fname = f; recur =
                r; ver = v; excl = x }) all_bools) all_verifies) all_bools)
          all_bools) all_bools) all_types) all_kinds

(** val nondefault : cfg -> nat **)

let nondefault c =
  add
    (add
      (add
        (add
          (add (if otype_eqb c.ty TAuto then O else S O)
            (if c.deref then O else S O)) (if c.fname then O else S O))
        (if c.recur then S O else O)) (if has_verify c then S O else O))
    (if c.excl then S O else O)
