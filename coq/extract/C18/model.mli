
val negb : bool -> bool

type nat =
| O
| S of nat

type ('a, 'b) sum =
| Inl of 'a
| Inr of 'b

val fst : ('a1 * 'a2) -> 'a1

val snd : ('a1 * 'a2) -> 'a2

val app : 'a1 list -> 'a1 list -> 'a1 list

val add : nat -> nat -> nat

type positive =
| XI of positive
| XO of positive
| XH

type n =
| N0
| Npos of positive

type z =
| Z0
| Zpos of positive
| Zneg of positive

val eqb : bool -> bool -> bool

val map : ('a1 -> 'a2) -> 'a1 list -> 'a2 list

val flat_map : ('a1 -> 'a2 list) -> 'a1 list -> 'a2 list

type argkind =
| AFile
| ADir
| ALinkFile
| ALinkDir
| AStdin
| AUrl
| AGitRepo

type otype =
| TAuto
| TContent
| TDirectory
| TOrigin
| TSnapshot

type verify =
| VNone
| VMatch
| VNonMatch

type cfg = { arg : argkind; ty : otype; deref : bool; fname : bool;
             recur : bool; ver : verify; excl : bool }

type obj =
| OPathContent
| OLinkText
| OTargetFile
| OEmptyContent
| OStdin
| ODirAtPath
| ODirAtLinkTarget
| OOrigin
| OSnapshot

type crash =
| CrTypeError
| CrNotADirectory
| CrFileNotFound
| CrNotGitRepository

type outcome =
| Print of obj * bool * bool * bool
| Usage
| Exit0
| Exit1
| Crash of crash

val is_dash : argkind -> bool

val isfile : argkind -> bool

val isdir : argkind -> bool

val islink : argkind -> bool

val has_scheme : argkind -> bool

val is_git_repo : argkind -> bool

type pathref =
| PArg
| PReal

type ptag =
| PBytes
| PStr

type fskind =
| FReg
| FLnk
| FDir
| FMissing

val lstat : argkind -> pathref -> fskind

val stat : argkind -> fskind

val swhid_of_file : argkind -> pathref -> (obj, crash) sum

val swhid_of_dir : argkind -> ptag -> bool -> (obj, crash) sum

val swhid_of_git_repo : argkind -> (obj, crash) sum

val fs_object : cfg -> obj

val otype_eqb : otype -> otype -> bool

val designated_obj : cfg -> obj

val is_dir_obj : obj -> bool

val is_origin_obj : obj -> bool

val designated : cfg -> obj * bool

val natural_type : obj -> otype

val in_scope : cfg -> bool

val in_scope_literal : cfg -> bool

type variant = { v_realpath_str : bool; v_rectype_bug : bool;
                 v_auto_follows : bool; v_rec_follows : bool }

val current : variant

val old_realpath : variant

val old_rectype : variant

val old_autolink : variant

val old_recfollows : variant

type res =
| ROk of obj * bool
| RUsage
| RCrash of crash

val lift : (obj, crash) sum -> bool -> res

val detect : variant -> cfg -> otype option

val identify_object : variant -> cfg -> res

val obj_eqb : obj -> obj -> bool

val has_verify : cfg -> bool

val verify_param_ok : cfg -> bool

val given_equals : cfg -> obj -> bool -> bool

val rectype_rejects : variant -> otype -> bool

val rec_isdir : variant -> cfg -> bool

val identify_gen : variant -> cfg -> outcome

val identify_model : cfg -> outcome

val identify_old_realpath : cfg -> outcome

val identify_old_rectype : cfg -> outcome

val identify_old_autolink : cfg -> outcome

val identify_old_recfollows : cfg -> outcome

val rec_effective : cfg -> bool

val type_is_auto_or_directory : otype -> bool

val spec : cfg -> outcome

val spec_strict : cfg -> outcome

val all_kinds : argkind list

val all_types : otype list

val all_bools : bool list

val all_verifies : verify list

val all_cfgs : cfg list

val nondefault : cfg -> nat
