(* Extraction of the C16 model.  ExtrOcamlBasic only; no Extract Constant /
   Extract Inductive of our own. *)
Require Extraction.
Require Import ExtrOcamlBasic.
From SWH.model Require Import Time.
Extraction "extract/C16/model.ml" mk_timestamp from_numeric_offset from_dict from_datetime to_datetime
  from_iso8601_parsed offset_minutes parse_offset_bytes offset_modelled format_date author_date_part
  parse_date z_range dt_valid.
