
(** val negb : bool -> bool **)

let negb = function
| true -> false
| false -> true

type nat =
| O
| S of nat

(** val fst : ('a1 * 'a2) -> 'a1 **)

let fst = function
| (x, _) -> x

(** val snd : ('a1 * 'a2) -> 'a2 **)

let snd = function
| (_, y) -> y

(** val length : 'a1 list -> nat **)

let rec length = function
| [] -> O
| _ :: l' -> S (length l')

(** val app : 'a1 list -> 'a1 list -> 'a1 list **)

let rec app l m =
  match l with
  | [] -> m
  | a :: l1 -> a :: (app l1 m)

(** val pred : nat -> nat **)

let pred n0 = match n0 with
| O -> n0
| S u -> u

module Nat =
 struct
  (** val sub : nat -> nat -> nat **)

  let rec sub n0 m =
    match n0 with
    | O -> n0
    | S k -> (match m with
              | O -> n0
              | S l -> sub k l)

  (** val eqb : nat -> nat -> bool **)

  let rec eqb n0 m =
    match n0 with
    | O -> (match m with
            | O -> true
            | S _ -> false)
    | S n' -> (match m with
               | O -> false
               | S m' -> eqb n' m')

  (** val divmod : nat -> nat -> nat -> nat -> nat * nat **)

  let rec divmod x y q u =
    match x with
    | O -> (q, u)
    | S x' ->
      (match u with
       | O -> divmod x' y (S q) y
       | S u' -> divmod x' y q u')

  (** val modulo : nat -> nat -> nat **)

  let modulo x = function
  | O -> x
  | S y' -> sub y' (snd (divmod x y' O y'))
 end

(** val nth : nat -> 'a1 list -> 'a1 -> 'a1 **)

let rec nth n0 l default =
  match n0 with
  | O -> (match l with
          | [] -> default
          | x :: _ -> x)
  | S m -> (match l with
            | [] -> default
            | _ :: t -> nth m t default)

(** val map : ('a1 -> 'a2) -> 'a1 list -> 'a2 list **)

let rec map f = function
| [] -> []
| a :: t -> (f a) :: (map f t)

(** val flat_map : ('a1 -> 'a2 list) -> 'a1 list -> 'a2 list **)

let rec flat_map f = function
| [] -> []
| x :: t -> app (f x) (flat_map f t)

(** val fold_left : ('a1 -> 'a2 -> 'a1) -> 'a2 list -> 'a1 -> 'a1 **)

let rec fold_left f l a0 =
  match l with
  | [] -> a0
  | b :: t -> fold_left f t (f a0 b)

(** val existsb : ('a1 -> bool) -> 'a1 list -> bool **)

let rec existsb f = function
| [] -> false
| a :: l0 -> (||) (f a) (existsb f l0)

(** val forallb : ('a1 -> bool) -> 'a1 list -> bool **)

let rec forallb f = function
| [] -> true
| a :: l0 -> (&&) (f a) (forallb f l0)

(** val filter : ('a1 -> bool) -> 'a1 list -> 'a1 list **)

let rec filter f = function
| [] -> []
| x :: l0 -> if f x then x :: (filter f l0) else filter f l0

type positive =
| XI of positive
| XO of positive
| XH

type n =
| N0
| Npos of positive

type z =
| Z0
| Zpos of positive
| Zneg of positive

module Pos =
 struct
  (** val succ : positive -> positive **)

  let rec succ = function
  | XI p -> XO (succ p)
  | XO p -> XI p
  | XH -> XO XH

  (** val add : positive -> positive -> positive **)

  let rec add x y =
    match x with
    | XI p ->
      (match y with
       | XI q -> XO (add_carry p q)
       | XO q -> XI (add p q)
       | XH -> XO (succ p))
    | XO p ->
      (match y with
       | XI q -> XI (add p q)
       | XO q -> XO (add p q)
       | XH -> XI p)
    | XH -> (match y with
             | XI q -> XO (succ q)
             | XO q -> XI q
             | XH -> XO XH)

  (** val add_carry : positive -> positive -> positive **)

  and add_carry x y =
    match x with
    | XI p ->
      (match y with
       | XI q -> XI (add_carry p q)
       | XO q -> XO (add_carry p q)
       | XH -> XI (succ p))
    | XO p ->
      (match y with
       | XI q -> XO (add_carry p q)
       | XO q -> XI (add p q)
       | XH -> XO (succ p))
    | XH ->
      (match y with
       | XI q -> XI (succ q)
       | XO q -> XO (succ q)
       | XH -> XI XH)

  (** val pred_double : positive -> positive **)

  let rec pred_double = function
  | XI p -> XI (XO p)
  | XO p -> XI (pred_double p)
  | XH -> XH

  (** val eqb : positive -> positive -> bool **)

  let rec eqb p q =
    match p with
    | XI p0 -> (match q with
                | XI q0 -> eqb p0 q0
                | _ -> false)
    | XO p0 -> (match q with
                | XO q0 -> eqb p0 q0
                | _ -> false)
    | XH -> (match q with
             | XH -> true
             | _ -> false)

  (** val of_succ_nat : nat -> positive **)

  let rec of_succ_nat = function
  | O -> XH
  | S x -> succ (of_succ_nat x)
 end

module N =
 struct
  (** val eqb : n -> n -> bool **)

  let eqb n0 m =
    match n0 with
    | N0 -> (match m with
             | N0 -> true
             | Npos _ -> false)
    | Npos p -> (match m with
                 | N0 -> false
                 | Npos q -> Pos.eqb p q)
 end

module Z =
 struct
  (** val double : z -> z **)

  let double = function
  | Z0 -> Z0
  | Zpos p -> Zpos (XO p)
  | Zneg p -> Zneg (XO p)

  (** val succ_double : z -> z **)

  let succ_double = function
  | Z0 -> Zpos XH
  | Zpos p -> Zpos (XI p)
  | Zneg p -> Zneg (Pos.pred_double p)

  (** val pred_double : z -> z **)

  let pred_double = function
  | Z0 -> Zneg XH
  | Zpos p -> Zpos (Pos.pred_double p)
  | Zneg p -> Zneg (XI p)

  (** val pos_sub : positive -> positive -> z **)

  let rec pos_sub x y =
    match x with
    | XI p ->
      (match y with
       | XI q -> double (pos_sub p q)
       | XO q -> succ_double (pos_sub p q)
       | XH -> Zpos (XO p))
    | XO p ->
      (match y with
       | XI q -> pred_double (pos_sub p q)
       | XO q -> double (pos_sub p q)
       | XH -> Zpos (Pos.pred_double p))
    | XH ->
      (match y with
       | XI q -> Zneg (XO q)
       | XO q -> Zneg (Pos.pred_double q)
       | XH -> Z0)

  (** val add : z -> z -> z **)

  let add x y =
    match x with
    | Z0 -> y
    | Zpos x' ->
      (match y with
       | Z0 -> x
       | Zpos y' -> Zpos (Pos.add x' y')
       | Zneg y' -> pos_sub x' y')
    | Zneg x' ->
      (match y with
       | Z0 -> x
       | Zpos y' -> pos_sub y' x'
       | Zneg y' -> Zneg (Pos.add x' y'))

  (** val opp : z -> z **)

  let opp = function
  | Z0 -> Z0
  | Zpos x0 -> Zneg x0
  | Zneg x0 -> Zpos x0

  (** val sub : z -> z -> z **)

  let sub m n0 =
    add m (opp n0)

  (** val eqb : z -> z -> bool **)

  let eqb x y =
    match x with
    | Z0 -> (match y with
             | Z0 -> true
             | _ -> false)
    | Zpos p -> (match y with
                 | Zpos q -> Pos.eqb p q
                 | _ -> false)
    | Zneg p -> (match y with
                 | Zneg q -> Pos.eqb p q
                 | _ -> false)

  (** val of_nat : nat -> z **)

  let of_nat = function
  | O -> Z0
  | S n1 -> Zpos (Pos.of_succ_nat n1)
 end

type rev = n * n list

(** val rid : rev -> n **)

let rid =
  fst

(** val rparents : rev -> n list **)

let rparents =
  snd

type degmap = (n * z) list

(** val deg_set : n -> z -> degmap -> degmap **)

let rec deg_set k v = function
| [] -> (k, v) :: []
| p :: m' ->
  let (k', v') = p in
  if N.eqb k k' then (k, v) :: m' else (k', v') :: (deg_set k v m')

(** val deg_get : n -> degmap -> z option **)

let rec deg_get k = function
| [] -> None
| p :: m' -> let (k', v') = p in if N.eqb k k' then Some v' else deg_get k m'

(** val init_deg : rev list -> degmap **)

let init_deg log =
  fold_left (fun m r -> deg_set (rid r) (Z.of_nat (length (rparents r))) m)
    log []

(** val init_queue : rev list -> rev list **)

let init_queue log =
  filter (fun r -> match rparents r with
                   | [] -> true
                   | _ :: _ -> false) log

(** val children_of : rev list -> n -> rev list **)

let children_of log p =
  flat_map (fun r -> map (fun _ -> r) (filter (N.eqb p) (rparents r))) log

type topo_result =
| TopoOk of rev list
| TopoKeyError
| TopoOutOfFuel

(** val process_children :
    rev list -> degmap -> rev list -> (degmap * rev list) option **)

let rec process_children cs d q =
  match cs with
  | [] -> Some (d, q)
  | c :: cs' ->
    (match deg_get (rid c) d with
     | Some v ->
       let v' = Z.sub v (Zpos XH) in
       let d' = deg_set (rid c) v' d in
       if Z.eqb v' Z0
       then process_children cs' d' (app q (c :: []))
       else process_children cs' d' q
     | None -> None)

(** val remove_nth : nat -> 'a1 list -> 'a1 list **)

let rec remove_nth i = function
| [] -> []
| x :: l' -> (match i with
              | O -> l'
              | S i' -> x :: (remove_nth i' l'))

type pick_oracle = rev list -> rev list -> nat

(** val kahn :
    nat -> pick_oracle -> rev list -> rev list -> degmap -> rev list ->
    topo_result **)

let rec kahn fuel pick log q d out =
  match q with
  | [] -> TopoOk out
  | r0 :: _ ->
    (match fuel with
     | O -> TopoOutOfFuel
     | S fuel' ->
       let i = Nat.modulo (pick q out) (length q) in
       let r = nth i q r0 in
       (match process_children (children_of log (rid r)) d (remove_nth i q) with
        | Some p ->
          let (d', q') = p in kahn fuel' pick log q' d' (app out (r :: []))
        | None -> TopoKeyError))

(** val toposort : pick_oracle -> rev list -> topo_result **)

let toposort pick log =
  kahn (S (length log)) pick log (init_queue log) (init_deg log) []

(** val fifo : pick_oracle **)

let fifo _ _ =
  O

(** val lifo : pick_oracle **)

let lifo q _ =
  pred (length q)

(** val index_of : n -> rev list -> nat option **)

let rec index_of k = function
| [] -> None
| r :: q' ->
  if N.eqb k (rid r)
  then Some O
  else (match index_of k q' with
        | Some i -> Some (S i)
        | None -> None)

(** val replay : nat -> rev list -> rev list -> degmap -> n list -> bool **)

let rec replay fuel log q d = function
| [] -> (match q with
         | [] -> true
         | _ :: _ -> false)
| k :: trace' ->
  (match fuel with
   | O -> false
   | S fuel' ->
     (match index_of k q with
      | Some i ->
        (match process_children (children_of log k) d (remove_nth i q) with
         | Some p -> let (d', q') = p in replay fuel' log q' d' trace'
         | None -> false)
      | None -> false))

(** val is_model_run : rev list -> n list -> bool **)

let is_model_run log trace =
  replay (S (length trace)) log (init_queue log) (init_deg log) trace

(** val memN : n -> n list -> bool **)

let rec memN k = function
| [] -> false
| x :: l' -> (||) (N.eqb k x) (memN k l')

(** val parents_before : n list -> rev list -> bool **)

let rec parents_before seen = function
| [] -> true
| r :: out' ->
  (&&) (forallb (fun p -> memN p seen) (rparents r))
    (parents_before ((rid r) :: seen) out')

(** val nodupN : n list -> bool **)

let rec nodupN = function
| [] -> true
| x :: l' -> (&&) (negb (memN x l')) (nodupN l')

(** val rev_eqb : rev -> rev -> bool **)

let rev_eqb a b =
  (&&) (N.eqb (rid a) (rid b))
    (let rec eqs x y =
       match x with
       | [] -> (match y with
                | [] -> true
                | _ :: _ -> false)
       | p :: x' ->
         (match y with
          | [] -> false
          | p' :: y' -> (&&) (N.eqb p p') (eqs x' y'))
     in eqs (rparents a) (rparents b))

(** val mem_rev : rev -> rev list -> bool **)

let mem_rev r l =
  existsb (rev_eqb r) l

(** val is_topo_order : rev list -> rev list -> bool **)

let is_topo_order log out =
  (&&)
    ((&&) ((&&) (Nat.eqb (length out) (length log)) (nodupN (map rid out)))
      (forallb (fun r -> mem_rev r log) out)) (parents_before [] out)

(** val closed_log : rev list -> bool **)

let closed_log log =
  forallb (fun r -> forallb (fun p -> memN p (map rid log)) (rparents r)) log
