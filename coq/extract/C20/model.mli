
val negb : bool -> bool

type nat =
| O
| S of nat

val fst : ('a1 * 'a2) -> 'a1

val snd : ('a1 * 'a2) -> 'a2

val length : 'a1 list -> nat

val app : 'a1 list -> 'a1 list -> 'a1 list

val pred : nat -> nat

module Nat :
 sig
  val sub : nat -> nat -> nat

  val eqb : nat -> nat -> bool

  val divmod : nat -> nat -> nat -> nat -> nat * nat

  val modulo : nat -> nat -> nat
 end

val nth : nat -> 'a1 list -> 'a1 -> 'a1

val map : ('a1 -> 'a2) -> 'a1 list -> 'a2 list

val flat_map : ('a1 -> 'a2 list) -> 'a1 list -> 'a2 list

val fold_left : ('a1 -> 'a2 -> 'a1) -> 'a2 list -> 'a1 -> 'a1

val existsb : ('a1 -> bool) -> 'a1 list -> bool

val forallb : ('a1 -> bool) -> 'a1 list -> bool

val filter : ('a1 -> bool) -> 'a1 list -> 'a1 list

type positive =
| XI of positive
| XO of positive
| XH

type n =
| N0
| Npos of positive

type z =
| Z0
| Zpos of positive
| Zneg of positive

module Pos :
 sig
  val succ : positive -> positive

  val add : positive -> positive -> positive

  val add_carry : positive -> positive -> positive

  val pred_double : positive -> positive

  val eqb : positive -> positive -> bool

  val of_succ_nat : nat -> positive
 end

module N :
 sig
  val eqb : n -> n -> bool
 end

module Z :
 sig
  val double : z -> z

  val succ_double : z -> z

  val pred_double : z -> z

  val pos_sub : positive -> positive -> z

  val add : z -> z -> z

  val opp : z -> z

  val sub : z -> z -> z

  val eqb : z -> z -> bool

  val of_nat : nat -> z
 end

type rev = n * n list

val rid : rev -> n

val rparents : rev -> n list

type degmap = (n * z) list

val deg_set : n -> z -> degmap -> degmap

val deg_get : n -> degmap -> z option

val init_deg : rev list -> degmap

val init_queue : rev list -> rev list

val children_of : rev list -> n -> rev list

type topo_result =
| TopoOk of rev list
| TopoKeyError
| TopoOutOfFuel

val process_children :
  rev list -> degmap -> rev list -> (degmap * rev list) option

val remove_nth : nat -> 'a1 list -> 'a1 list

type pick_oracle = rev list -> rev list -> nat

val kahn :
  nat -> pick_oracle -> rev list -> rev list -> degmap -> rev list ->
  topo_result

val toposort : pick_oracle -> rev list -> topo_result

val fifo : pick_oracle

val lifo : pick_oracle

val index_of : n -> rev list -> nat option

val replay : nat -> rev list -> rev list -> degmap -> n list -> bool

val is_model_run : rev list -> n list -> bool

val memN : n -> n list -> bool

val parents_before : n list -> rev list -> bool

val nodupN : n list -> bool

val rev_eqb : rev -> rev -> bool

val mem_rev : rev -> rev list -> bool

val is_topo_order : rev list -> rev list -> bool

val closed_log : rev list -> bool
