(* Extraction of the C10 model (Merkle heap machine).  ExtrOcamlBasic only;
   no Extract Constant / Extract Inductive of our own. *)
Require Extraction.
Require Import ExtrOcamlBasic.
From Coq Require Import ZArith.
From SWH.model Require Import Merkle.
(* Z.of_N only so that the shared ocaml/conv.ml finds the type z *)
Extraction "extract/C10/model.ml" run step cached hashed Z.of_N.
