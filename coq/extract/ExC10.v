(* Extraction of the C10 model (Merkle heap machine).  ExtrOcamlBasic only;
   no Extract Constant / Extract Inductive of our own. *)
Require Extraction.
Require Import ExtrOcamlBasic.
From SWH.model Require Import Merkle.
Extraction "extract/C10/model.ml" run step cached hashed.
