
(** val negb : bool -> bool **)

let negb = function
| true -> false
| false -> true

type nat =
| O
| S of nat

(** val option_map : ('a1 -> 'a2) -> 'a1 option -> 'a2 option **)

let option_map f = function
| Some a -> Some (f a)
| None -> None

(** val fst : ('a1 * 'a2) -> 'a1 **)

let fst = function
| (x, _) -> x

(** val snd : ('a1 * 'a2) -> 'a2 **)

let snd = function
| (_, y) -> y

(** val length : 'a1 list -> nat **)

let rec length = function
| [] -> O
| _ :: l' -> S (length l')

(** val app : 'a1 list -> 'a1 list -> 'a1 list **)

let rec app l m =
  match l with
  | [] -> m
  | a :: l1 -> a :: (app l1 m)

type comparison =
| Eq
| Lt
| Gt

type uint =
| Nil
| D0 of uint
| D1 of uint
| D2 of uint
| D3 of uint
| D4 of uint
| D5 of uint
| D6 of uint
| D7 of uint
| D8 of uint
| D9 of uint

(** val revapp : uint -> uint -> uint **)

let rec revapp d d' =
  match d with
  | Nil -> d'
  | D0 d0 -> revapp d0 (D0 d')
  | D1 d0 -> revapp d0 (D1 d')
  | D2 d0 -> revapp d0 (D2 d')
  | D3 d0 -> revapp d0 (D3 d')
  | D4 d0 -> revapp d0 (D4 d')
  | D5 d0 -> revapp d0 (D5 d')
  | D6 d0 -> revapp d0 (D6 d')
  | D7 d0 -> revapp d0 (D7 d')
  | D8 d0 -> revapp d0 (D8 d')
  | D9 d0 -> revapp d0 (D9 d')

(** val rev : uint -> uint **)

let rev d =
  revapp d Nil

module Little =
 struct
  (** val double : uint -> uint **)

  let rec double = function
  | Nil -> Nil
  | D0 d0 -> D0 (double d0)
  | D1 d0 -> D2 (double d0)
  | D2 d0 -> D4 (double d0)
  | D3 d0 -> D6 (double d0)
  | D4 d0 -> D8 (double d0)
  | D5 d0 -> D0 (succ_double d0)
  | D6 d0 -> D2 (succ_double d0)
  | D7 d0 -> D4 (succ_double d0)
  | D8 d0 -> D6 (succ_double d0)
  | D9 d0 -> D8 (succ_double d0)

  (** val succ_double : uint -> uint **)

  and succ_double = function
  | Nil -> D1 Nil
  | D0 d0 -> D1 (double d0)
  | D1 d0 -> D3 (double d0)
  | D2 d0 -> D5 (double d0)
  | D3 d0 -> D7 (double d0)
  | D4 d0 -> D9 (double d0)
  | D5 d0 -> D1 (succ_double d0)
  | D6 d0 -> D3 (succ_double d0)
  | D7 d0 -> D5 (succ_double d0)
  | D8 d0 -> D7 (succ_double d0)
  | D9 d0 -> D9 (succ_double d0)
 end

module Nat =
 struct
  (** val eqb : nat -> nat -> bool **)

  let rec eqb n0 m =
    match n0 with
    | O -> (match m with
            | O -> true
            | S _ -> false)
    | S n' -> (match m with
               | O -> false
               | S m' -> eqb n' m')

  (** val max : nat -> nat -> nat **)

  let rec max n0 m =
    match n0 with
    | O -> m
    | S n' -> (match m with
               | O -> n0
               | S m' -> S (max n' m'))
 end

(** val last : 'a1 list -> 'a1 -> 'a1 **)

let rec last l d =
  match l with
  | [] -> d
  | a :: l0 -> (match l0 with
                | [] -> a
                | _ :: _ -> last l0 d)

(** val rev0 : 'a1 list -> 'a1 list **)

let rec rev0 = function
| [] -> []
| x :: l' -> app (rev0 l') (x :: [])

(** val map : ('a1 -> 'a2) -> 'a1 list -> 'a2 list **)

let rec map f = function
| [] -> []
| a :: t -> (f a) :: (map f t)

(** val flat_map : ('a1 -> 'a2 list) -> 'a1 list -> 'a2 list **)

let rec flat_map f = function
| [] -> []
| x :: t -> app (f x) (flat_map f t)

(** val fold_left : ('a1 -> 'a2 -> 'a1) -> 'a2 list -> 'a1 -> 'a1 **)

let rec fold_left f l a0 =
  match l with
  | [] -> a0
  | b :: t -> fold_left f t (f a0 b)

(** val existsb : ('a1 -> bool) -> 'a1 list -> bool **)

let rec existsb f = function
| [] -> false
| a :: l0 -> (||) (f a) (existsb f l0)

(** val forallb : ('a1 -> bool) -> 'a1 list -> bool **)

let rec forallb f = function
| [] -> true
| a :: l0 -> (&&) (f a) (forallb f l0)

(** val filter : ('a1 -> bool) -> 'a1 list -> 'a1 list **)

let rec filter f = function
| [] -> []
| x :: l0 -> if f x then x :: (filter f l0) else filter f l0

(** val find : ('a1 -> bool) -> 'a1 list -> 'a1 option **)

let rec find f = function
| [] -> None
| x :: tl -> if f x then Some x else find f tl

(** val firstn : nat -> 'a1 list -> 'a1 list **)

let rec firstn n0 l =
  match n0 with
  | O -> []
  | S n1 -> (match l with
             | [] -> []
             | a :: l0 -> a :: (firstn n1 l0))

(** val skipn : nat -> 'a1 list -> 'a1 list **)

let rec skipn n0 l =
  match n0 with
  | O -> l
  | S n1 -> (match l with
             | [] -> []
             | _ :: l0 -> skipn n1 l0)

type positive =
| XI of positive
| XO of positive
| XH

type n =
| N0
| Npos of positive

type z =
| Z0
| Zpos of positive
| Zneg of positive

module Pos =
 struct
  type mask =
  | IsNul
  | IsPos of positive
  | IsNeg
 end

module Coq_Pos =
 struct
  (** val succ : positive -> positive **)

  let rec succ = function
  | XI p -> XO (succ p)
  | XO p -> XI p
  | XH -> XO XH

  (** val add : positive -> positive -> positive **)

  let rec add x y =
    match x with
    | XI p ->
      (match y with
       | XI q -> XO (add_carry p q)
       | XO q -> XI (add p q)
       | XH -> XO (succ p))
    | XO p ->
      (match y with
       | XI q -> XI (add p q)
       | XO q -> XO (add p q)
       | XH -> XI p)
    | XH -> (match y with
             | XI q -> XO (succ q)
             | XO q -> XI q
             | XH -> XO XH)

  (** val add_carry : positive -> positive -> positive **)

  and add_carry x y =
    match x with
    | XI p ->
      (match y with
       | XI q -> XI (add_carry p q)
       | XO q -> XO (add_carry p q)
       | XH -> XI (succ p))
    | XO p ->
      (match y with
       | XI q -> XO (add_carry p q)
       | XO q -> XI (add p q)
       | XH -> XO (succ p))
    | XH ->
      (match y with
       | XI q -> XI (succ q)
       | XO q -> XO (succ q)
       | XH -> XI XH)

  (** val pred_double : positive -> positive **)

  let rec pred_double = function
  | XI p -> XI (XO p)
  | XO p -> XI (pred_double p)
  | XH -> XH

  type mask = Pos.mask =
  | IsNul
  | IsPos of positive
  | IsNeg

  (** val succ_double_mask : mask -> mask **)

  let succ_double_mask = function
  | IsNul -> IsPos XH
  | IsPos p -> IsPos (XI p)
  | IsNeg -> IsNeg

  (** val double_mask : mask -> mask **)

  let double_mask = function
  | IsPos p -> IsPos (XO p)
  | x0 -> x0

  (** val double_pred_mask : positive -> mask **)

  let double_pred_mask = function
  | XI p -> IsPos (XO (XO p))
  | XO p -> IsPos (XO (pred_double p))
  | XH -> IsNul

  (** val sub_mask : positive -> positive -> mask **)

  let rec sub_mask x y =
    match x with
    | XI p ->
      (match y with
       | XI q -> double_mask (sub_mask p q)
       | XO q -> succ_double_mask (sub_mask p q)
       | XH -> IsPos (XO p))
    | XO p ->
      (match y with
       | XI q -> succ_double_mask (sub_mask_carry p q)
       | XO q -> double_mask (sub_mask p q)
       | XH -> IsPos (pred_double p))
    | XH -> (match y with
             | XH -> IsNul
             | _ -> IsNeg)

  (** val sub_mask_carry : positive -> positive -> mask **)

  and sub_mask_carry x y =
    match x with
    | XI p ->
      (match y with
       | XI q -> succ_double_mask (sub_mask_carry p q)
       | XO q -> double_mask (sub_mask p q)
       | XH -> IsPos (pred_double p))
    | XO p ->
      (match y with
       | XI q -> double_mask (sub_mask_carry p q)
       | XO q -> succ_double_mask (sub_mask_carry p q)
       | XH -> double_pred_mask p)
    | XH -> IsNeg

  (** val mul : positive -> positive -> positive **)

  let rec mul x y =
    match x with
    | XI p -> add y (XO (mul p y))
    | XO p -> XO (mul p y)
    | XH -> y

  (** val compare_cont : comparison -> positive -> positive -> comparison **)

  let rec compare_cont r x y =
    match x with
    | XI p ->
      (match y with
       | XI q -> compare_cont r p q
       | XO q -> compare_cont Gt p q
       | XH -> Gt)
    | XO p ->
      (match y with
       | XI q -> compare_cont Lt p q
       | XO q -> compare_cont r p q
       | XH -> Gt)
    | XH -> (match y with
             | XH -> r
             | _ -> Lt)

  (** val compare : positive -> positive -> comparison **)

  let compare =
    compare_cont Eq

  (** val eqb : positive -> positive -> bool **)

  let rec eqb p q =
    match p with
    | XI p0 -> (match q with
                | XI q0 -> eqb p0 q0
                | _ -> false)
    | XO p0 -> (match q with
                | XO q0 -> eqb p0 q0
                | _ -> false)
    | XH -> (match q with
             | XH -> true
             | _ -> false)

  (** val of_succ_nat : nat -> positive **)

  let rec of_succ_nat = function
  | O -> XH
  | S x -> succ (of_succ_nat x)

  (** val of_uint_acc : uint -> positive -> positive **)

  let rec of_uint_acc d acc =
    match d with
    | Nil -> acc
    | D0 l -> of_uint_acc l (mul (XO (XI (XO XH))) acc)
    | D1 l -> of_uint_acc l (add XH (mul (XO (XI (XO XH))) acc))
    | D2 l -> of_uint_acc l (add (XO XH) (mul (XO (XI (XO XH))) acc))
    | D3 l -> of_uint_acc l (add (XI XH) (mul (XO (XI (XO XH))) acc))
    | D4 l -> of_uint_acc l (add (XO (XO XH)) (mul (XO (XI (XO XH))) acc))
    | D5 l -> of_uint_acc l (add (XI (XO XH)) (mul (XO (XI (XO XH))) acc))
    | D6 l -> of_uint_acc l (add (XO (XI XH)) (mul (XO (XI (XO XH))) acc))
    | D7 l -> of_uint_acc l (add (XI (XI XH)) (mul (XO (XI (XO XH))) acc))
    | D8 l ->
      of_uint_acc l (add (XO (XO (XO XH))) (mul (XO (XI (XO XH))) acc))
    | D9 l ->
      of_uint_acc l (add (XI (XO (XO XH))) (mul (XO (XI (XO XH))) acc))

  (** val of_uint : uint -> n **)

  let rec of_uint = function
  | Nil -> N0
  | D0 l -> of_uint l
  | D1 l -> Npos (of_uint_acc l XH)
  | D2 l -> Npos (of_uint_acc l (XO XH))
  | D3 l -> Npos (of_uint_acc l (XI XH))
  | D4 l -> Npos (of_uint_acc l (XO (XO XH)))
  | D5 l -> Npos (of_uint_acc l (XI (XO XH)))
  | D6 l -> Npos (of_uint_acc l (XO (XI XH)))
  | D7 l -> Npos (of_uint_acc l (XI (XI XH)))
  | D8 l -> Npos (of_uint_acc l (XO (XO (XO XH))))
  | D9 l -> Npos (of_uint_acc l (XI (XO (XO XH))))

  (** val to_little_uint : positive -> uint **)

  let rec to_little_uint = function
  | XI p0 -> Little.succ_double (to_little_uint p0)
  | XO p0 -> Little.double (to_little_uint p0)
  | XH -> D1 Nil

  (** val to_uint : positive -> uint **)

  let to_uint p =
    rev (to_little_uint p)
 end

module N =
 struct
  (** val succ_double : n -> n **)

  let succ_double = function
  | N0 -> Npos XH
  | Npos p -> Npos (XI p)

  (** val double : n -> n **)

  let double = function
  | N0 -> N0
  | Npos p -> Npos (XO p)

  (** val add : n -> n -> n **)

  let add n0 m =
    match n0 with
    | N0 -> m
    | Npos p -> (match m with
                 | N0 -> n0
                 | Npos q -> Npos (Coq_Pos.add p q))

  (** val sub : n -> n -> n **)

  let sub n0 m =
    match n0 with
    | N0 -> N0
    | Npos n' ->
      (match m with
       | N0 -> n0
       | Npos m' ->
         (match Coq_Pos.sub_mask n' m' with
          | Coq_Pos.IsPos p -> Npos p
          | _ -> N0))

  (** val mul : n -> n -> n **)

  let mul n0 m =
    match n0 with
    | N0 -> N0
    | Npos p -> (match m with
                 | N0 -> N0
                 | Npos q -> Npos (Coq_Pos.mul p q))

  (** val compare : n -> n -> comparison **)

  let compare n0 m =
    match n0 with
    | N0 -> (match m with
             | N0 -> Eq
             | Npos _ -> Lt)
    | Npos n' -> (match m with
                  | N0 -> Gt
                  | Npos m' -> Coq_Pos.compare n' m')

  (** val eqb : n -> n -> bool **)

  let eqb n0 m =
    match n0 with
    | N0 -> (match m with
             | N0 -> true
             | Npos _ -> false)
    | Npos p -> (match m with
                 | N0 -> false
                 | Npos q -> Coq_Pos.eqb p q)

  (** val leb : n -> n -> bool **)

  let leb x y =
    match compare x y with
    | Gt -> false
    | _ -> true

  (** val ltb : n -> n -> bool **)

  let ltb x y =
    match compare x y with
    | Lt -> true
    | _ -> false

  (** val pos_div_eucl : positive -> n -> n * n **)

  let rec pos_div_eucl a b =
    match a with
    | XI a' ->
      let (q, r) = pos_div_eucl a' b in
      let r' = succ_double r in
      if leb b r' then ((succ_double q), (sub r' b)) else ((double q), r')
    | XO a' ->
      let (q, r) = pos_div_eucl a' b in
      let r' = double r in
      if leb b r' then ((succ_double q), (sub r' b)) else ((double q), r')
    | XH ->
      (match b with
       | N0 -> (N0, (Npos XH))
       | Npos p -> (match p with
                    | XH -> ((Npos XH), N0)
                    | _ -> (N0, (Npos XH))))

  (** val div_eucl : n -> n -> n * n **)

  let div_eucl a b =
    match a with
    | N0 -> (N0, N0)
    | Npos na -> (match b with
                  | N0 -> (N0, a)
                  | Npos _ -> pos_div_eucl na b)

  (** val div : n -> n -> n **)

  let div a b =
    fst (div_eucl a b)

  (** val modulo : n -> n -> n **)

  let modulo a b =
    snd (div_eucl a b)

  (** val of_nat : nat -> n **)

  let of_nat = function
  | O -> N0
  | S n' -> Npos (Coq_Pos.of_succ_nat n')

  (** val of_uint : uint -> n **)

  let of_uint =
    Coq_Pos.of_uint

  (** val to_uint : n -> uint **)

  let to_uint = function
  | N0 -> D0 Nil
  | Npos p -> Coq_Pos.to_uint p
 end

module Z =
 struct
  (** val eqb : z -> z -> bool **)

  let eqb x y =
    match x with
    | Z0 -> (match y with
             | Z0 -> true
             | _ -> false)
    | Zpos p -> (match y with
                 | Zpos q -> Coq_Pos.eqb p q
                 | _ -> false)
    | Zneg p -> (match y with
                 | Zneg q -> Coq_Pos.eqb p q
                 | _ -> false)

  (** val abs_N : z -> n **)

  let abs_N = function
  | Z0 -> N0
  | Zpos p -> Npos p
  | Zneg p -> Npos p

  (** val of_N : n -> z **)

  let of_N = function
  | N0 -> Z0
  | Npos p -> Zpos p
 end

type bytes = n list

(** val beqb : bytes -> bytes -> bool **)

let rec beqb a b =
  match a with
  | [] -> (match b with
           | [] -> true
           | _ :: _ -> false)
  | x :: a' ->
    (match b with
     | [] -> false
     | y :: b' -> (&&) (N.eqb x y) (beqb a' b'))

(** val memb : n -> bytes -> bool **)

let memb c l =
  existsb (N.eqb c) l

(** val mem_bytes : bytes -> bytes list -> bool **)

let mem_bytes k l =
  existsb (beqb k) l

(** val cut : n -> bytes -> bytes * bytes option **)

let rec cut c = function
| [] -> ([], None)
| x :: l' ->
  if N.eqb x c
  then ([], (Some l'))
  else let (a, r) = cut c l' in ((x :: a), r)

(** val strip_prefix : bytes -> bytes -> bytes option **)

let rec strip_prefix p l =
  match p with
  | [] -> Some l
  | x :: p' ->
    (match l with
     | [] -> None
     | y :: l' -> if N.eqb x y then strip_prefix p' l' else None)

(** val take : nat -> n list -> n list **)

let take =
  firstn

(** val drop : nat -> n list -> n list **)

let drop =
  skipn

type text = n list

(** val rEPL : n **)

let rEPL =
  Npos (XI (XO (XI (XI (XI (XI (XI (XI (XI (XI (XI (XI (XI (XI (XI
    XH)))))))))))))))

(** val is_surrogate : n -> bool **)

let is_surrogate c =
  (&&)
    (N.leb (Npos (XO (XO (XO (XO (XO (XO (XO (XO (XO (XO (XO (XI (XI (XO (XI
      XH)))))))))))))))) c)
    (N.ltb c (Npos (XO (XO (XO (XO (XO (XO (XO (XO (XO (XO (XO (XO (XO (XI
      (XI XH)))))))))))))))))

(** val is_scalar : n -> bool **)

let is_scalar c =
  (&&)
    (N.ltb c (Npos (XO (XO (XO (XO (XO (XO (XO (XO (XO (XO (XO (XO (XO (XO
      (XO (XO (XI (XO (XO (XO XH)))))))))))))))))))))) (negb (is_surrogate c))

(** val enc_cp : n -> bytes option **)

let enc_cp c =
  if N.ltb c (Npos (XO (XO (XO (XO (XO (XO (XO XH))))))))
  then Some (c :: [])
  else if N.ltb c (Npos (XO (XO (XO (XO (XO (XO (XO (XO (XO (XO (XO
            XH))))))))))))
       then Some
              ((N.add (Npos (XO (XO (XO (XO (XO (XO (XI XH))))))))
                 (N.div c (Npos (XO (XO (XO (XO (XO (XO XH))))))))) :: (
              (N.add (Npos (XO (XO (XO (XO (XO (XO (XO XH))))))))
                (N.modulo c (Npos (XO (XO (XO (XO (XO (XO XH))))))))) :: []))
       else if N.ltb c (Npos (XO (XO (XO (XO (XO (XO (XO (XO (XO (XO (XO (XO
                 (XO (XO (XO (XO XH)))))))))))))))))
            then if is_surrogate c
                 then None
                 else Some
                        ((N.add (Npos (XO (XO (XO (XO (XO (XI (XI XH))))))))
                           (N.div c (Npos (XO (XO (XO (XO (XO (XO (XO (XO (XO
                             (XO (XO (XO XH))))))))))))))) :: ((N.add (Npos
                                                                 (XO (XO (XO
                                                                 (XO (XO (XO
                                                                 (XO
                                                                 XH))))))))
                                                                 (N.modulo
                                                                   (N.div c
                                                                    (Npos (XO
                                                                    (XO (XO
                                                                    (XO (XO
                                                                    (XO
                                                                    XH))))))))
                                                                   (Npos (XO
                                                                   (XO (XO
                                                                   (XO (XO
                                                                   (XO
                                                                   XH))))))))) :: (
                        (N.add (Npos (XO (XO (XO (XO (XO (XO (XO XH))))))))
                          (N.modulo c (Npos (XO (XO (XO (XO (XO (XO XH))))))))) :: [])))
            else if N.ltb c (Npos (XO (XO (XO (XO (XO (XO (XO (XO (XO (XO (XO
                      (XO (XO (XO (XO (XO (XI (XO (XO (XO
                      XH)))))))))))))))))))))
                 then Some
                        ((N.add (Npos (XO (XO (XO (XO (XI (XI (XI XH))))))))
                           (N.div c (Npos (XO (XO (XO (XO (XO (XO (XO (XO (XO
                             (XO (XO (XO (XO (XO (XO (XO (XO (XO
                             XH))))))))))))))))))))) :: ((N.add (Npos (XO (XO
                                                           (XO (XO (XO (XO
                                                           (XO XH))))))))
                                                           (N.modulo
                                                             (N.div c (Npos
                                                               (XO (XO (XO
                                                               (XO (XO (XO
                                                               (XO (XO (XO
                                                               (XO (XO (XO
                                                               XH))))))))))))))
                                                             (Npos (XO (XO
                                                             (XO (XO (XO (XO
                                                             XH))))))))) :: (
                        (N.add (Npos (XO (XO (XO (XO (XO (XO (XO XH))))))))
                          (N.modulo
                            (N.div c (Npos (XO (XO (XO (XO (XO (XO XH))))))))
                            (Npos (XO (XO (XO (XO (XO (XO XH))))))))) :: (
                        (N.add (Npos (XO (XO (XO (XO (XO (XO (XO XH))))))))
                          (N.modulo c (Npos (XO (XO (XO (XO (XO (XO XH))))))))) :: []))))
                 else None

(** val utf8_encode : text -> bytes option **)

let rec utf8_encode = function
| [] -> Some []
| c :: t' ->
  (match enc_cp c with
   | Some b ->
     (match utf8_encode t' with
      | Some r -> Some (app b r)
      | None -> None)
   | None -> None)

(** val is_cont : n -> bool **)

let is_cont b =
  (&&) (N.leb (Npos (XO (XO (XO (XO (XO (XO (XO XH)))))))) b)
    (N.ltb b (Npos (XO (XO (XO (XO (XO (XO (XI XH)))))))))

(** val ok2_of3 : n -> n -> bool **)

let ok2_of3 b0 b1 =
  (&&)
    ((&&) (is_cont b1)
      (negb
        ((&&) (N.eqb b0 (Npos (XO (XO (XO (XO (XO (XI (XI XH)))))))))
          (N.ltb b1 (Npos (XO (XO (XO (XO (XO (XI (XO XH))))))))))))
    (negb
      ((&&) (N.eqb b0 (Npos (XI (XO (XI (XI (XO (XI (XI XH)))))))))
        (N.leb (Npos (XO (XO (XO (XO (XO (XI (XO XH)))))))) b1)))

(** val ok2_of4 : n -> n -> bool **)

let ok2_of4 b0 b1 =
  (&&)
    ((&&) (is_cont b1)
      (negb
        ((&&) (N.eqb b0 (Npos (XO (XO (XO (XO (XI (XI (XI XH)))))))))
          (N.ltb b1 (Npos (XO (XO (XO (XO (XI (XO (XO XH))))))))))))
    (negb
      ((&&) (N.eqb b0 (Npos (XO (XO (XI (XO (XI (XI (XI XH)))))))))
        (N.leb (Npos (XO (XO (XO (XO (XI (XO (XO XH)))))))) b1)))

(** val cp2 : n -> n -> n **)

let cp2 b0 b1 =
  N.add
    (N.mul (N.sub b0 (Npos (XO (XO (XO (XO (XO (XO (XI XH))))))))) (Npos (XO
      (XO (XO (XO (XO (XO XH))))))))
    (N.sub b1 (Npos (XO (XO (XO (XO (XO (XO (XO XH)))))))))

(** val cp3 : n -> n -> n -> n **)

let cp3 b0 b1 b2 =
  N.add
    (N.add
      (N.mul (N.sub b0 (Npos (XO (XO (XO (XO (XO (XI (XI XH))))))))) (Npos
        (XO (XO (XO (XO (XO (XO (XO (XO (XO (XO (XO (XO XH))))))))))))))
      (N.mul (N.sub b1 (Npos (XO (XO (XO (XO (XO (XO (XO XH))))))))) (Npos
        (XO (XO (XO (XO (XO (XO XH)))))))))
    (N.sub b2 (Npos (XO (XO (XO (XO (XO (XO (XO XH)))))))))

(** val cp4 : n -> n -> n -> n -> n **)

let cp4 b0 b1 b2 b3 =
  N.add
    (N.add
      (N.add
        (N.mul (N.sub b0 (Npos (XO (XO (XO (XO (XI (XI (XI XH))))))))) (Npos
          (XO (XO (XO (XO (XO (XO (XO (XO (XO (XO (XO (XO (XO (XO (XO (XO (XO
          (XO XH))))))))))))))))))))
        (N.mul (N.sub b1 (Npos (XO (XO (XO (XO (XO (XO (XO XH))))))))) (Npos
          (XO (XO (XO (XO (XO (XO (XO (XO (XO (XO (XO (XO XH)))))))))))))))
      (N.mul (N.sub b2 (Npos (XO (XO (XO (XO (XO (XO (XO XH))))))))) (Npos
        (XO (XO (XO (XO (XO (XO XH)))))))))
    (N.sub b3 (Npos (XO (XO (XO (XO (XO (XO (XO XH)))))))))

(** val utf8_decode_replace : bytes -> text **)

let rec utf8_decode_replace = function
| [] -> []
| b0 :: t0 ->
  if N.ltb b0 (Npos (XO (XO (XO (XO (XO (XO (XO XH))))))))
  then b0 :: (utf8_decode_replace t0)
  else if N.ltb b0 (Npos (XO (XI (XO (XO (XO (XO (XI XH))))))))
       then rEPL :: (utf8_decode_replace t0)
       else if N.ltb b0 (Npos (XO (XO (XO (XO (XO (XI (XI XH))))))))
            then (match t0 with
                  | [] -> rEPL :: []
                  | b1 :: t1 ->
                    if is_cont b1
                    then (cp2 b0 b1) :: (utf8_decode_replace t1)
                    else rEPL :: (utf8_decode_replace t0))
            else if N.ltb b0 (Npos (XO (XO (XO (XO (XI (XI (XI XH))))))))
                 then (match t0 with
                       | [] -> rEPL :: []
                       | b1 :: t1 ->
                         if ok2_of3 b0 b1
                         then (match t1 with
                               | [] -> rEPL :: []
                               | b2 :: t2 ->
                                 if is_cont b2
                                 then (cp3 b0 b1 b2) :: (utf8_decode_replace
                                                          t2)
                                 else rEPL :: (utf8_decode_replace t1))
                         else rEPL :: (utf8_decode_replace t0))
                 else if N.ltb b0 (Npos (XI (XO (XI (XO (XI (XI (XI XH))))))))
                      then (match t0 with
                            | [] -> rEPL :: []
                            | b1 :: t1 ->
                              if ok2_of4 b0 b1
                              then (match t1 with
                                    | [] -> rEPL :: []
                                    | b2 :: t2 ->
                                      if is_cont b2
                                      then (match t2 with
                                            | [] -> rEPL :: []
                                            | b3 :: t3 ->
                                              if is_cont b3
                                              then (cp4 b0 b1 b2 b3) :: 
                                                     (utf8_decode_replace t3)
                                              else rEPL :: (utf8_decode_replace
                                                             t2))
                                      else rEPL :: (utf8_decode_replace t1))
                              else rEPL :: (utf8_decode_replace t0))
                      else rEPL :: (utf8_decode_replace t0)

(** val always_safe : n -> bool **)

let always_safe b =
  (||)
    ((||)
      ((||)
        ((||)
          ((||)
            ((||)
              ((&&) (N.leb (Npos (XI (XO (XO (XO (XO (XO XH))))))) b)
                (N.leb b (Npos (XO (XI (XO (XI (XI (XO XH)))))))))
              ((&&) (N.leb (Npos (XI (XO (XO (XO (XO (XI XH))))))) b)
                (N.leb b (Npos (XO (XI (XO (XI (XI (XI XH))))))))))
            ((&&) (N.leb (Npos (XO (XO (XO (XO (XI XH)))))) b)
              (N.leb b (Npos (XI (XO (XO (XI (XI XH)))))))))
          (N.eqb b (Npos (XI (XI (XI (XI (XI (XO XH)))))))))
        (N.eqb b (Npos (XO (XI (XI (XI (XO XH))))))))
      (N.eqb b (Npos (XI (XO (XI (XI (XO XH))))))))
    (N.eqb b (Npos (XO (XI (XI (XI (XI (XI XH))))))))

(** val hexdigit_upper : n -> n **)

let hexdigit_upper n0 =
  if N.ltb n0 (Npos (XO (XI (XO XH))))
  then N.add (Npos (XO (XO (XO (XO (XI XH)))))) n0
  else N.add (Npos (XI (XI (XI (XO (XI XH)))))) n0

(** val pct_byte : n -> bytes **)

let pct_byte b =
  (Npos (XI (XO (XI (XO (XO
    XH)))))) :: ((hexdigit_upper (N.div b (Npos (XO (XO (XO (XO XH))))))) :: (
    (hexdigit_upper (N.modulo b (Npos (XO (XO (XO (XO XH))))))) :: []))

(** val quote_byte : n -> text **)

let quote_byte b =
  if (||) (always_safe b) (N.eqb b (Npos (XI (XI (XI (XI (XO XH)))))))
  then b :: []
  else pct_byte b

(** val quote_from_bytes : bytes -> text **)

let quote_from_bytes l =
  flat_map quote_byte l

(** val quote_text : text -> text option **)

let quote_text t =
  match utf8_encode t with
  | Some b -> Some (quote_from_bytes b)
  | None -> None

(** val hexval : n -> n option **)

let hexval c =
  if (&&) (N.leb (Npos (XO (XO (XO (XO (XI XH)))))) c)
       (N.leb c (Npos (XI (XO (XO (XI (XI XH)))))))
  then Some (N.sub c (Npos (XO (XO (XO (XO (XI XH)))))))
  else if (&&) (N.leb (Npos (XI (XO (XO (XO (XO (XO XH))))))) c)
            (N.leb c (Npos (XO (XI (XI (XO (XO (XO XH))))))))
       then Some (N.sub c (Npos (XI (XI (XI (XO (XI XH)))))))
       else if (&&) (N.leb (Npos (XI (XO (XO (XO (XO (XI XH))))))) c)
                 (N.leb c (Npos (XO (XI (XI (XO (XO (XI XH))))))))
            then Some (N.sub c (Npos (XI (XI (XI (XO (XI (XO XH))))))))
            else None

(** val unquote_bytes : bytes -> bytes **)

let rec unquote_bytes = function
| [] -> []
| c :: l' ->
  if N.eqb c (Npos (XI (XO (XI (XO (XO XH))))))
  then (match l' with
        | [] -> (Npos (XI (XO (XI (XO (XO XH)))))) :: (unquote_bytes l')
        | a :: l0 ->
          (match l0 with
           | [] -> (Npos (XI (XO (XI (XO (XO XH)))))) :: (unquote_bytes l')
           | b :: r ->
             (match hexval a with
              | Some x ->
                (match hexval b with
                 | Some y ->
                   (N.add (N.mul (Npos (XO (XO (XO (XO XH))))) x) y) :: 
                     (unquote_bytes r)
                 | None ->
                   (Npos (XI (XO (XI (XO (XO XH)))))) :: (unquote_bytes l'))
              | None ->
                (Npos (XI (XO (XI (XO (XO XH)))))) :: (unquote_bytes l'))))
  else c :: (unquote_bytes l')

(** val unquote_to_bytes : text -> bytes option **)

let unquote_to_bytes t =
  match utf8_encode t with
  | Some b -> Some (unquote_bytes b)
  | None -> None

(** val flush_run : bytes -> text **)

let flush_run acc = match acc with
| [] -> []
| _ :: _ -> utf8_decode_replace (unquote_bytes (rev0 acc))

(** val unquote_runs : bytes -> text -> text **)

let rec unquote_runs acc = function
| [] -> flush_run acc
| c :: t' ->
  if N.ltb c (Npos (XO (XO (XO (XO (XO (XO (XO XH))))))))
  then unquote_runs (c :: acc) t'
  else app (flush_run acc) (c :: (unquote_runs [] t'))

(** val unquote : text -> text **)

let unquote t =
  if memb (Npos (XI (XO (XI (XO (XO XH)))))) t then unquote_runs [] t else t

(** val uint_bytes : uint -> bytes **)

let rec uint_bytes = function
| Nil -> []
| D0 d0 -> (Npos (XO (XO (XO (XO (XI XH)))))) :: (uint_bytes d0)
| D1 d0 -> (Npos (XI (XO (XO (XO (XI XH)))))) :: (uint_bytes d0)
| D2 d0 -> (Npos (XO (XI (XO (XO (XI XH)))))) :: (uint_bytes d0)
| D3 d0 -> (Npos (XI (XI (XO (XO (XI XH)))))) :: (uint_bytes d0)
| D4 d0 -> (Npos (XO (XO (XI (XO (XI XH)))))) :: (uint_bytes d0)
| D5 d0 -> (Npos (XI (XO (XI (XO (XI XH)))))) :: (uint_bytes d0)
| D6 d0 -> (Npos (XO (XI (XI (XO (XI XH)))))) :: (uint_bytes d0)
| D7 d0 -> (Npos (XI (XI (XI (XO (XI XH)))))) :: (uint_bytes d0)
| D8 d0 -> (Npos (XO (XO (XO (XI (XI XH)))))) :: (uint_bytes d0)
| D9 d0 -> (Npos (XI (XO (XO (XI (XI XH)))))) :: (uint_bytes d0)

(** val is_digit : n -> bool **)

let is_digit b =
  (&&) (N.leb (Npos (XO (XO (XO (XO (XI XH)))))) b)
    (N.leb b (Npos (XI (XO (XO (XI (XI XH)))))))

(** val mkD : n -> uint -> uint **)

let mkD b d =
  match b with
  | N0 -> D9 d
  | Npos p ->
    (match p with
     | XI p0 ->
       (match p0 with
        | XI p1 ->
          (match p1 with
           | XI p2 ->
             (match p2 with
              | XO p3 ->
                (match p3 with
                 | XI p4 -> (match p4 with
                             | XH -> D7 d
                             | _ -> D9 d)
                 | _ -> D9 d)
              | _ -> D9 d)
           | XO p2 ->
             (match p2 with
              | XO p3 ->
                (match p3 with
                 | XI p4 -> (match p4 with
                             | XH -> D3 d
                             | _ -> D9 d)
                 | _ -> D9 d)
              | _ -> D9 d)
           | XH -> D9 d)
        | XO p1 ->
          (match p1 with
           | XI p2 ->
             (match p2 with
              | XO p3 ->
                (match p3 with
                 | XI p4 -> (match p4 with
                             | XH -> D5 d
                             | _ -> D9 d)
                 | _ -> D9 d)
              | _ -> D9 d)
           | XO p2 ->
             (match p2 with
              | XO p3 ->
                (match p3 with
                 | XI p4 -> (match p4 with
                             | XH -> D1 d
                             | _ -> D9 d)
                 | _ -> D9 d)
              | _ -> D9 d)
           | XH -> D9 d)
        | XH -> D9 d)
     | XO p0 ->
       (match p0 with
        | XI p1 ->
          (match p1 with
           | XI p2 ->
             (match p2 with
              | XO p3 ->
                (match p3 with
                 | XI p4 -> (match p4 with
                             | XH -> D6 d
                             | _ -> D9 d)
                 | _ -> D9 d)
              | _ -> D9 d)
           | XO p2 ->
             (match p2 with
              | XO p3 ->
                (match p3 with
                 | XI p4 -> (match p4 with
                             | XH -> D2 d
                             | _ -> D9 d)
                 | _ -> D9 d)
              | _ -> D9 d)
           | XH -> D9 d)
        | XO p1 ->
          (match p1 with
           | XI p2 ->
             (match p2 with
              | XO p3 ->
                (match p3 with
                 | XI p4 -> (match p4 with
                             | XH -> D4 d
                             | _ -> D9 d)
                 | _ -> D9 d)
              | _ -> D9 d)
           | XO p2 ->
             (match p2 with
              | XI p3 ->
                (match p3 with
                 | XI p4 -> (match p4 with
                             | XH -> D8 d
                             | _ -> D9 d)
                 | _ -> D9 d)
              | XO p3 ->
                (match p3 with
                 | XI p4 -> (match p4 with
                             | XH -> D0 d
                             | _ -> D9 d)
                 | _ -> D9 d)
              | XH -> D9 d)
           | XH -> D9 d)
        | XH -> D9 d)
     | XH -> D9 d)

(** val bytes_uint : bytes -> uint option **)

let rec bytes_uint = function
| [] -> Some Nil
| b :: l' -> if is_digit b then option_map (mkD b) (bytes_uint l') else None

(** val dec_N : n -> bytes **)

let dec_N n0 =
  uint_bytes (N.to_uint n0)

(** val parse_dec_N : bytes -> n option **)

let parse_dec_N l = match l with
| [] -> None
| _ :: _ -> option_map N.of_uint (bytes_uint l)

(** val dec_Z : z -> bytes **)

let dec_Z = function
| Z0 -> dec_N N0
| Zpos p -> dec_N (Npos p)
| Zneg p -> (Npos (XI (XO (XI (XI (XO XH)))))) :: (dec_N (Npos p))

(** val parse_dec_Z : bytes -> z option **)

let parse_dec_Z l = match l with
| [] -> option_map Z.of_N (parse_dec_N l)
| n0 :: l' ->
  (match n0 with
   | N0 -> option_map Z.of_N (parse_dec_N l)
   | Npos p ->
     (match p with
      | XI p0 ->
        (match p0 with
         | XO p1 ->
           (match p1 with
            | XI p2 ->
              (match p2 with
               | XI p3 ->
                 (match p3 with
                  | XO p4 ->
                    (match p4 with
                     | XH ->
                       (match parse_dec_N l' with
                        | Some n1 ->
                          (match n1 with
                           | N0 -> None
                           | Npos p5 -> Some (Zneg p5))
                        | None -> None)
                     | _ -> option_map Z.of_N (parse_dec_N l))
                  | _ -> option_map Z.of_N (parse_dec_N l))
               | _ -> option_map Z.of_N (parse_dec_N l))
            | _ -> option_map Z.of_N (parse_dec_N l))
         | _ -> option_map Z.of_N (parse_dec_N l))
      | _ -> option_map Z.of_N (parse_dec_N l)))

(** val hexdigit : n -> n **)

let hexdigit n0 =
  if N.ltb n0 (Npos (XO (XI (XO XH))))
  then N.add (Npos (XO (XO (XO (XO (XI XH)))))) n0
  else N.add (Npos (XI (XI (XI (XO (XI (XO XH))))))) n0

(** val hex_byte : n -> bytes **)

let hex_byte b =
  (hexdigit (N.div b (Npos (XO (XO (XO (XO XH))))))) :: ((hexdigit
                                                           (N.modulo b (Npos
                                                             (XO (XO (XO (XO
                                                             XH))))))) :: [])

(** val hexlify : bytes -> bytes **)

let hexlify l =
  flat_map hex_byte l

(** val is_lower_hex : n -> bool **)

let is_lower_hex c =
  (||)
    ((&&) (N.leb (Npos (XO (XO (XO (XO (XI XH)))))) c)
      (N.leb c (Npos (XI (XO (XO (XI (XI XH))))))))
    ((&&) (N.leb (Npos (XI (XO (XO (XO (XO (XI XH))))))) c)
      (N.leb c (Npos (XO (XI (XI (XO (XO (XI XH)))))))))

(** val unhexdigit : n -> n option **)

let unhexdigit c =
  if (&&) (N.leb (Npos (XO (XO (XO (XO (XI XH)))))) c)
       (N.leb c (Npos (XI (XO (XO (XI (XI XH)))))))
  then Some (N.sub c (Npos (XO (XO (XO (XO (XI XH)))))))
  else if (&&) (N.leb (Npos (XI (XO (XO (XO (XO (XI XH))))))) c)
            (N.leb c (Npos (XO (XI (XI (XO (XO (XI XH))))))))
       then Some (N.sub c (Npos (XI (XI (XI (XO (XI (XO XH))))))))
       else None

(** val unhex : bytes -> bytes option **)

let rec unhex = function
| [] -> Some []
| a :: l0 ->
  (match l0 with
   | [] -> None
   | b :: r ->
     (match unhexdigit a with
      | Some x ->
        (match unhexdigit b with
         | Some y ->
           (match unhex r with
            | Some t ->
              Some ((N.add (N.mul (Npos (XO (XO (XO (XO XH))))) x) y) :: t)
            | None -> None)
         | None -> None)
      | None -> None))

(** val sWHID_NAMESPACE : n list **)

let sWHID_NAMESPACE =
  (Npos (XI (XI (XO (XO (XI (XI XH))))))) :: ((Npos (XI (XI (XI (XO (XI (XI
    XH))))))) :: ((Npos (XO (XO (XO (XI (XO (XI XH))))))) :: []))

(** val sWHID_VERSION : z **)

let sWHID_VERSION =
  Zpos XH

(** val eXTENDED_SWHID_TYPES : n list list **)

let eXTENDED_SWHID_TYPES =
  ((Npos (XI (XI (XO (XO (XI (XI XH))))))) :: ((Npos (XO (XI (XI (XI (XO (XI
    XH))))))) :: ((Npos (XO (XO (XO (XO (XI (XI XH))))))) :: []))) :: (((Npos
    (XO (XI (XO (XO (XI (XI XH))))))) :: ((Npos (XI (XO (XI (XO (XO (XI
    XH))))))) :: ((Npos (XO (XO (XI (XI (XO (XI XH))))))) :: []))) :: (((Npos
    (XO (XI (XO (XO (XI (XI XH))))))) :: ((Npos (XI (XO (XI (XO (XO (XI
    XH))))))) :: ((Npos (XO (XI (XI (XO (XI (XI XH))))))) :: []))) :: (((Npos
    (XO (XO (XI (XO (XO (XI XH))))))) :: ((Npos (XI (XO (XO (XI (XO (XI
    XH))))))) :: ((Npos (XO (XI (XO (XO (XI (XI XH))))))) :: []))) :: (((Npos
    (XI (XI (XO (XO (XO (XI XH))))))) :: ((Npos (XO (XI (XI (XI (XO (XI
    XH))))))) :: ((Npos (XO (XO (XI (XO (XI (XI XH))))))) :: []))) :: (((Npos
    (XI (XI (XI (XI (XO (XI XH))))))) :: ((Npos (XO (XI (XO (XO (XI (XI
    XH))))))) :: ((Npos (XI (XO (XO (XI (XO (XI XH))))))) :: []))) :: (((Npos
    (XI (XO (XI (XO (XO (XI XH))))))) :: ((Npos (XI (XO (XI (XI (XO (XI
    XH))))))) :: ((Npos (XO (XO (XI (XO (XO (XI XH))))))) :: []))) :: []))))))

(** val sWHID_QUALIFIERS : n list list **)

let sWHID_QUALIFIERS =
  ((Npos (XI (XO (XO (XO (XO (XI XH))))))) :: ((Npos (XO (XI (XI (XI (XO (XI
    XH))))))) :: ((Npos (XI (XI (XO (XO (XO (XI XH))))))) :: ((Npos (XO (XO
    (XO (XI (XO (XI XH))))))) :: ((Npos (XI (XI (XI (XI (XO (XI
    XH))))))) :: ((Npos (XO (XI (XO (XO (XI (XI
    XH))))))) :: [])))))) :: (((Npos (XO (XO (XI (XI (XO (XI
    XH))))))) :: ((Npos (XI (XO (XO (XI (XO (XI XH))))))) :: ((Npos (XO (XI
    (XI (XI (XO (XI XH))))))) :: ((Npos (XI (XO (XI (XO (XO (XI
    XH))))))) :: ((Npos (XI (XI (XO (XO (XI (XI
    XH))))))) :: []))))) :: (((Npos (XI (XI (XI (XI (XO (XI
    XH))))))) :: ((Npos (XO (XI (XO (XO (XI (XI XH))))))) :: ((Npos (XI (XO
    (XO (XI (XO (XI XH))))))) :: ((Npos (XI (XI (XI (XO (XO (XI
    XH))))))) :: ((Npos (XI (XO (XO (XI (XO (XI XH))))))) :: ((Npos (XO (XI
    (XI (XI (XO (XI XH))))))) :: [])))))) :: (((Npos (XO (XO (XO (XO (XI (XI
    XH))))))) :: ((Npos (XI (XO (XO (XO (XO (XI XH))))))) :: ((Npos (XO (XO
    (XI (XO (XI (XI XH))))))) :: ((Npos (XO (XO (XO (XI (XO (XI
    XH))))))) :: [])))) :: (((Npos (XO (XI (XI (XO (XI (XI
    XH))))))) :: ((Npos (XI (XO (XO (XI (XO (XI XH))))))) :: ((Npos (XI (XI
    (XO (XO (XI (XI XH))))))) :: ((Npos (XI (XO (XO (XI (XO (XI
    XH))))))) :: ((Npos (XO (XO (XI (XO (XI (XI XH))))))) :: []))))) :: []))))

(** val oBJECT_TYPES : (n list * n list) list **)

let oBJECT_TYPES =
  (((Npos (XI (XI (XO (XO (XI (XO XH))))))) :: ((Npos (XO (XI (XI (XI (XO (XO
    XH))))))) :: ((Npos (XI (XO (XO (XO (XO (XO XH))))))) :: ((Npos (XO (XO
    (XO (XO (XI (XO XH))))))) :: ((Npos (XI (XI (XO (XO (XI (XO
    XH))))))) :: ((Npos (XO (XO (XO (XI (XO (XO XH))))))) :: ((Npos (XI (XI
    (XI (XI (XO (XO XH))))))) :: ((Npos (XO (XO (XI (XO (XI (XO
    XH))))))) :: [])))))))), ((Npos (XI (XI (XO (XO (XI (XI
    XH))))))) :: ((Npos (XO (XI (XI (XI (XO (XI XH))))))) :: ((Npos (XO (XO
    (XO (XO (XI (XI XH))))))) :: [])))) :: ((((Npos (XO (XI (XO (XO (XI (XO
    XH))))))) :: ((Npos (XI (XO (XI (XO (XO (XO XH))))))) :: ((Npos (XO (XI
    (XI (XO (XI (XO XH))))))) :: ((Npos (XI (XO (XO (XI (XO (XO
    XH))))))) :: ((Npos (XI (XI (XO (XO (XI (XO XH))))))) :: ((Npos (XI (XO
    (XO (XI (XO (XO XH))))))) :: ((Npos (XI (XI (XI (XI (XO (XO
    XH))))))) :: ((Npos (XO (XI (XI (XI (XO (XO XH))))))) :: [])))))))),
    ((Npos (XO (XI (XO (XO (XI (XI XH))))))) :: ((Npos (XI (XO (XI (XO (XO
    (XI XH))))))) :: ((Npos (XO (XI (XI (XO (XI (XI
    XH))))))) :: [])))) :: ((((Npos (XO (XI (XO (XO (XI (XO
    XH))))))) :: ((Npos (XI (XO (XI (XO (XO (XO XH))))))) :: ((Npos (XO (XO
    (XI (XI (XO (XO XH))))))) :: ((Npos (XI (XO (XI (XO (XO (XO
    XH))))))) :: ((Npos (XI (XO (XO (XO (XO (XO XH))))))) :: ((Npos (XI (XI
    (XO (XO (XI (XO XH))))))) :: ((Npos (XI (XO (XI (XO (XO (XO
    XH))))))) :: []))))))), ((Npos (XO (XI (XO (XO (XI (XI
    XH))))))) :: ((Npos (XI (XO (XI (XO (XO (XI XH))))))) :: ((Npos (XO (XO
    (XI (XI (XO (XI XH))))))) :: [])))) :: ((((Npos (XO (XO (XI (XO (XO (XO
    XH))))))) :: ((Npos (XI (XO (XO (XI (XO (XO XH))))))) :: ((Npos (XO (XI
    (XO (XO (XI (XO XH))))))) :: ((Npos (XI (XO (XI (XO (XO (XO
    XH))))))) :: ((Npos (XI (XI (XO (XO (XO (XO XH))))))) :: ((Npos (XO (XO
    (XI (XO (XI (XO XH))))))) :: ((Npos (XI (XI (XI (XI (XO (XO
    XH))))))) :: ((Npos (XO (XI (XO (XO (XI (XO XH))))))) :: ((Npos (XI (XO
    (XO (XI (XI (XO XH))))))) :: []))))))))), ((Npos (XO (XO (XI (XO (XO (XI
    XH))))))) :: ((Npos (XI (XO (XO (XI (XO (XI XH))))))) :: ((Npos (XO (XI
    (XO (XO (XI (XI XH))))))) :: [])))) :: ((((Npos (XI (XI (XO (XO (XO (XO
    XH))))))) :: ((Npos (XI (XI (XI (XI (XO (XO XH))))))) :: ((Npos (XO (XI
    (XI (XI (XO (XO XH))))))) :: ((Npos (XO (XO (XI (XO (XI (XO
    XH))))))) :: ((Npos (XI (XO (XI (XO (XO (XO XH))))))) :: ((Npos (XO (XI
    (XI (XI (XO (XO XH))))))) :: ((Npos (XO (XO (XI (XO (XI (XO
    XH))))))) :: []))))))), ((Npos (XI (XI (XO (XO (XO (XI
    XH))))))) :: ((Npos (XO (XI (XI (XI (XO (XI XH))))))) :: ((Npos (XO (XO
    (XI (XO (XI (XI XH))))))) :: [])))) :: []))))

(** val eXTENDED_OBJECT_TYPES : (n list * n list) list **)

let eXTENDED_OBJECT_TYPES =
  (((Npos (XI (XI (XO (XO (XI (XO XH))))))) :: ((Npos (XO (XI (XI (XI (XO (XO
    XH))))))) :: ((Npos (XI (XO (XO (XO (XO (XO XH))))))) :: ((Npos (XO (XO
    (XO (XO (XI (XO XH))))))) :: ((Npos (XI (XI (XO (XO (XI (XO
    XH))))))) :: ((Npos (XO (XO (XO (XI (XO (XO XH))))))) :: ((Npos (XI (XI
    (XI (XI (XO (XO XH))))))) :: ((Npos (XO (XO (XI (XO (XI (XO
    XH))))))) :: [])))))))), ((Npos (XI (XI (XO (XO (XI (XI
    XH))))))) :: ((Npos (XO (XI (XI (XI (XO (XI XH))))))) :: ((Npos (XO (XO
    (XO (XO (XI (XI XH))))))) :: [])))) :: ((((Npos (XO (XI (XO (XO (XI (XO
    XH))))))) :: ((Npos (XI (XO (XI (XO (XO (XO XH))))))) :: ((Npos (XO (XI
    (XI (XO (XI (XO XH))))))) :: ((Npos (XI (XO (XO (XI (XO (XO
    XH))))))) :: ((Npos (XI (XI (XO (XO (XI (XO XH))))))) :: ((Npos (XI (XO
    (XO (XI (XO (XO XH))))))) :: ((Npos (XI (XI (XI (XI (XO (XO
    XH))))))) :: ((Npos (XO (XI (XI (XI (XO (XO XH))))))) :: [])))))))),
    ((Npos (XO (XI (XO (XO (XI (XI XH))))))) :: ((Npos (XI (XO (XI (XO (XO
    (XI XH))))))) :: ((Npos (XO (XI (XI (XO (XI (XI
    XH))))))) :: [])))) :: ((((Npos (XO (XI (XO (XO (XI (XO
    XH))))))) :: ((Npos (XI (XO (XI (XO (XO (XO XH))))))) :: ((Npos (XO (XO
    (XI (XI (XO (XO XH))))))) :: ((Npos (XI (XO (XI (XO (XO (XO
    XH))))))) :: ((Npos (XI (XO (XO (XO (XO (XO XH))))))) :: ((Npos (XI (XI
    (XO (XO (XI (XO XH))))))) :: ((Npos (XI (XO (XI (XO (XO (XO
    XH))))))) :: []))))))), ((Npos (XO (XI (XO (XO (XI (XI
    XH))))))) :: ((Npos (XI (XO (XI (XO (XO (XI XH))))))) :: ((Npos (XO (XO
    (XI (XI (XO (XI XH))))))) :: [])))) :: ((((Npos (XO (XO (XI (XO (XO (XO
    XH))))))) :: ((Npos (XI (XO (XO (XI (XO (XO XH))))))) :: ((Npos (XO (XI
    (XO (XO (XI (XO XH))))))) :: ((Npos (XI (XO (XI (XO (XO (XO
    XH))))))) :: ((Npos (XI (XI (XO (XO (XO (XO XH))))))) :: ((Npos (XO (XO
    (XI (XO (XI (XO XH))))))) :: ((Npos (XI (XI (XI (XI (XO (XO
    XH))))))) :: ((Npos (XO (XI (XO (XO (XI (XO XH))))))) :: ((Npos (XI (XO
    (XO (XI (XI (XO XH))))))) :: []))))))))), ((Npos (XO (XO (XI (XO (XO (XI
    XH))))))) :: ((Npos (XI (XO (XO (XI (XO (XI XH))))))) :: ((Npos (XO (XI
    (XO (XO (XI (XI XH))))))) :: [])))) :: ((((Npos (XI (XI (XO (XO (XO (XO
    XH))))))) :: ((Npos (XI (XI (XI (XI (XO (XO XH))))))) :: ((Npos (XO (XI
    (XI (XI (XO (XO XH))))))) :: ((Npos (XO (XO (XI (XO (XI (XO
    XH))))))) :: ((Npos (XI (XO (XI (XO (XO (XO XH))))))) :: ((Npos (XO (XI
    (XI (XI (XO (XO XH))))))) :: ((Npos (XO (XO (XI (XO (XI (XO
    XH))))))) :: []))))))), ((Npos (XI (XI (XO (XO (XO (XI
    XH))))))) :: ((Npos (XO (XI (XI (XI (XO (XI XH))))))) :: ((Npos (XO (XO
    (XI (XO (XI (XI XH))))))) :: [])))) :: ((((Npos (XI (XI (XI (XI (XO (XO
    XH))))))) :: ((Npos (XO (XI (XO (XO (XI (XO XH))))))) :: ((Npos (XI (XO
    (XO (XI (XO (XO XH))))))) :: ((Npos (XI (XI (XI (XO (XO (XO
    XH))))))) :: ((Npos (XI (XO (XO (XI (XO (XO XH))))))) :: ((Npos (XO (XI
    (XI (XI (XO (XO XH))))))) :: [])))))), ((Npos (XI (XI (XI (XI (XO (XI
    XH))))))) :: ((Npos (XO (XI (XO (XO (XI (XI XH))))))) :: ((Npos (XI (XO
    (XO (XI (XO (XI XH))))))) :: [])))) :: ((((Npos (XO (XI (XO (XO (XI (XO
    XH))))))) :: ((Npos (XI (XO (XO (XO (XO (XO XH))))))) :: ((Npos (XI (XI
    (XI (XO (XI (XO XH))))))) :: ((Npos (XI (XI (XI (XI (XI (XO
    XH))))))) :: ((Npos (XI (XO (XI (XO (XO (XO XH))))))) :: ((Npos (XO (XO
    (XO (XI (XI (XO XH))))))) :: ((Npos (XO (XO (XI (XO (XI (XO
    XH))))))) :: ((Npos (XO (XI (XO (XO (XI (XO XH))))))) :: ((Npos (XI (XO
    (XO (XI (XO (XO XH))))))) :: ((Npos (XO (XI (XI (XI (XO (XO
    XH))))))) :: ((Npos (XI (XI (XO (XO (XI (XO XH))))))) :: ((Npos (XI (XO
    (XO (XI (XO (XO XH))))))) :: ((Npos (XI (XI (XO (XO (XO (XO
    XH))))))) :: ((Npos (XI (XI (XI (XI (XI (XO XH))))))) :: ((Npos (XI (XO
    (XI (XI (XO (XO XH))))))) :: ((Npos (XI (XO (XI (XO (XO (XO
    XH))))))) :: ((Npos (XO (XO (XI (XO (XI (XO XH))))))) :: ((Npos (XI (XO
    (XO (XO (XO (XO XH))))))) :: ((Npos (XO (XO (XI (XO (XO (XO
    XH))))))) :: ((Npos (XI (XO (XO (XO (XO (XO XH))))))) :: ((Npos (XO (XO
    (XI (XO (XI (XO XH))))))) :: ((Npos (XI (XO (XO (XO (XO (XO
    XH))))))) :: [])))))))))))))))))))))), ((Npos (XI (XO (XI (XO (XO (XI
    XH))))))) :: ((Npos (XI (XO (XI (XI (XO (XI XH))))))) :: ((Npos (XO (XO
    (XI (XO (XO (XI XH))))))) :: [])))) :: []))))))

(** val qUALIFIER_PRINT_ORDER : n list list **)

let qUALIFIER_PRINT_ORDER =
  ((Npos (XI (XI (XI (XI (XO (XI XH))))))) :: ((Npos (XO (XI (XO (XO (XI (XI
    XH))))))) :: ((Npos (XI (XO (XO (XI (XO (XI XH))))))) :: ((Npos (XI (XI
    (XI (XO (XO (XI XH))))))) :: ((Npos (XI (XO (XO (XI (XO (XI
    XH))))))) :: ((Npos (XO (XI (XI (XI (XO (XI
    XH))))))) :: [])))))) :: (((Npos (XO (XI (XI (XO (XI (XI
    XH))))))) :: ((Npos (XI (XO (XO (XI (XO (XI XH))))))) :: ((Npos (XI (XI
    (XO (XO (XI (XI XH))))))) :: ((Npos (XI (XO (XO (XI (XO (XI
    XH))))))) :: ((Npos (XO (XO (XI (XO (XI (XI
    XH))))))) :: []))))) :: (((Npos (XI (XO (XO (XO (XO (XI
    XH))))))) :: ((Npos (XO (XI (XI (XI (XO (XI XH))))))) :: ((Npos (XI (XI
    (XO (XO (XO (XI XH))))))) :: ((Npos (XO (XO (XO (XI (XO (XI
    XH))))))) :: ((Npos (XI (XI (XI (XI (XO (XI XH))))))) :: ((Npos (XO (XI
    (XO (XO (XI (XI XH))))))) :: [])))))) :: (((Npos (XO (XO (XO (XO (XI (XI
    XH))))))) :: ((Npos (XI (XO (XO (XO (XO (XI XH))))))) :: ((Npos (XO (XO
    (XI (XO (XI (XI XH))))))) :: ((Npos (XO (XO (XO (XI (XO (XI
    XH))))))) :: [])))) :: (((Npos (XO (XO (XI (XI (XO (XI
    XH))))))) :: ((Npos (XI (XO (XO (XI (XO (XI XH))))))) :: ((Npos (XO (XI
    (XI (XI (XO (XI XH))))))) :: ((Npos (XI (XO (XI (XO (XO (XI
    XH))))))) :: ((Npos (XI (XI (XO (XO (XI (XI XH))))))) :: []))))) :: []))))

type err =
| EValidation
| EValue
| EType
| EAssertion

type 'a result =
| Ok of 'a
| Err of err

(** val bind : 'a1 result -> ('a1 -> 'a2 result) -> 'a2 result **)

let bind r f =
  match r with
  | Ok a -> f a
  | Err e -> Err e

(** val value_error_to_validation : 'a1 result -> 'a1 result **)

let value_error_to_validation r = match r with
| Ok _ -> r
| Err e -> (match e with
            | EValue -> Err EValidation
            | _ -> r)

(** val is_nil : 'a1 list -> bool **)

let is_nil = function
| [] -> true
| _ :: _ -> false

(** val s_SNAPSHOT : text **)

let s_SNAPSHOT =
  (Npos (XI (XI (XO (XO (XI (XO XH))))))) :: ((Npos (XO (XI (XI (XI (XO (XO
    XH))))))) :: ((Npos (XI (XO (XO (XO (XO (XO XH))))))) :: ((Npos (XO (XO
    (XO (XO (XI (XO XH))))))) :: ((Npos (XI (XI (XO (XO (XI (XO
    XH))))))) :: ((Npos (XO (XO (XO (XI (XO (XO XH))))))) :: ((Npos (XI (XI
    (XI (XI (XO (XO XH))))))) :: ((Npos (XO (XO (XI (XO (XI (XO
    XH))))))) :: [])))))))

(** val s_DIRECTORY : text **)

let s_DIRECTORY =
  (Npos (XO (XO (XI (XO (XO (XO XH))))))) :: ((Npos (XI (XO (XO (XI (XO (XO
    XH))))))) :: ((Npos (XO (XI (XO (XO (XI (XO XH))))))) :: ((Npos (XI (XO
    (XI (XO (XO (XO XH))))))) :: ((Npos (XI (XI (XO (XO (XO (XO
    XH))))))) :: ((Npos (XO (XO (XI (XO (XI (XO XH))))))) :: ((Npos (XI (XI
    (XI (XI (XO (XO XH))))))) :: ((Npos (XO (XI (XO (XO (XI (XO
    XH))))))) :: ((Npos (XI (XO (XO (XI (XI (XO XH))))))) :: []))))))))

(** val s_REVISION : text **)

let s_REVISION =
  (Npos (XO (XI (XO (XO (XI (XO XH))))))) :: ((Npos (XI (XO (XI (XO (XO (XO
    XH))))))) :: ((Npos (XO (XI (XI (XO (XI (XO XH))))))) :: ((Npos (XI (XO
    (XO (XI (XO (XO XH))))))) :: ((Npos (XI (XI (XO (XO (XI (XO
    XH))))))) :: ((Npos (XI (XO (XO (XI (XO (XO XH))))))) :: ((Npos (XI (XI
    (XI (XI (XO (XO XH))))))) :: ((Npos (XO (XI (XI (XI (XO (XO
    XH))))))) :: [])))))))

(** val s_RELEASE : text **)

let s_RELEASE =
  (Npos (XO (XI (XO (XO (XI (XO XH))))))) :: ((Npos (XI (XO (XI (XO (XO (XO
    XH))))))) :: ((Npos (XO (XO (XI (XI (XO (XO XH))))))) :: ((Npos (XI (XO
    (XI (XO (XO (XO XH))))))) :: ((Npos (XI (XO (XO (XO (XO (XO
    XH))))))) :: ((Npos (XI (XI (XO (XO (XI (XO XH))))))) :: ((Npos (XI (XO
    (XI (XO (XO (XO XH))))))) :: []))))))

(** val s_pct3B : text **)

let s_pct3B =
  (Npos (XI (XO (XI (XO (XO XH)))))) :: ((Npos (XI (XI (XO (XO (XI
    XH)))))) :: ((Npos (XO (XI (XO (XO (XO (XO XH))))))) :: []))

(** val s_pct25 : text **)

let s_pct25 =
  (Npos (XI (XO (XI (XO (XO XH)))))) :: ((Npos (XO (XI (XO (XO (XI
    XH)))))) :: ((Npos (XI (XO (XI (XO (XI XH)))))) :: []))

(** val s_swh1 : text **)

let s_swh1 =
  (Npos (XI (XI (XO (XO (XI (XI XH))))))) :: ((Npos (XI (XI (XI (XO (XI (XI
    XH))))))) :: ((Npos (XO (XO (XO (XI (XO (XI XH))))))) :: ((Npos (XO (XI
    (XO (XI (XI XH)))))) :: ((Npos (XI (XO (XO (XO (XI XH)))))) :: ((Npos (XO
    (XI (XO (XI (XI XH)))))) :: [])))))

(** val s_colon : text **)

let s_colon =
  (Npos (XO (XI (XO (XI (XI XH)))))) :: []

(** val s_visit : text **)

let s_visit =
  (Npos (XO (XI (XI (XO (XI (XI XH))))))) :: ((Npos (XI (XO (XO (XI (XO (XI
    XH))))))) :: ((Npos (XI (XI (XO (XO (XI (XI XH))))))) :: ((Npos (XI (XO
    (XO (XI (XO (XI XH))))))) :: ((Npos (XO (XO (XI (XO (XI (XI
    XH))))))) :: []))))

(** val s_anchor : text **)

let s_anchor =
  (Npos (XI (XO (XO (XO (XO (XI XH))))))) :: ((Npos (XO (XI (XI (XI (XO (XI
    XH))))))) :: ((Npos (XI (XI (XO (XO (XO (XI XH))))))) :: ((Npos (XO (XO
    (XO (XI (XO (XI XH))))))) :: ((Npos (XI (XI (XI (XI (XO (XI
    XH))))))) :: ((Npos (XO (XI (XO (XO (XI (XI XH))))))) :: [])))))

(** val s_lines : text **)

let s_lines =
  (Npos (XO (XO (XI (XI (XO (XI XH))))))) :: ((Npos (XI (XO (XO (XI (XO (XI
    XH))))))) :: ((Npos (XO (XI (XI (XI (XO (XI XH))))))) :: ((Npos (XI (XO
    (XI (XO (XO (XI XH))))))) :: ((Npos (XI (XI (XO (XO (XI (XI
    XH))))))) :: []))))

(** val s_path : text **)

let s_path =
  (Npos (XO (XO (XO (XO (XI (XI XH))))))) :: ((Npos (XI (XO (XO (XO (XO (XI
    XH))))))) :: ((Npos (XO (XO (XI (XO (XI (XI XH))))))) :: ((Npos (XO (XO
    (XO (XI (XO (XI XH))))))) :: [])))

(** val s_snp : text **)

let s_snp =
  (Npos (XI (XI (XO (XO (XI (XI XH))))))) :: ((Npos (XO (XI (XI (XI (XO (XI
    XH))))))) :: ((Npos (XO (XO (XO (XO (XI (XI XH))))))) :: []))

(** val s_rel : text **)

let s_rel =
  (Npos (XO (XI (XO (XO (XI (XI XH))))))) :: ((Npos (XI (XO (XI (XO (XO (XI
    XH))))))) :: ((Npos (XO (XO (XI (XI (XO (XI XH))))))) :: []))

(** val s_rev : text **)

let s_rev =
  (Npos (XO (XI (XO (XO (XI (XI XH))))))) :: ((Npos (XI (XO (XI (XO (XO (XI
    XH))))))) :: ((Npos (XO (XI (XI (XO (XI (XI XH))))))) :: []))

(** val s_dir : text **)

let s_dir =
  (Npos (XO (XO (XI (XO (XO (XI XH))))))) :: ((Npos (XI (XO (XO (XI (XO (XI
    XH))))))) :: ((Npos (XO (XI (XO (XO (XI (XI XH))))))) :: []))

(** val s_cnt : text **)

let s_cnt =
  (Npos (XI (XI (XO (XO (XO (XI XH))))))) :: ((Npos (XO (XI (XI (XI (XO (XI
    XH))))))) :: ((Npos (XO (XO (XI (XO (XI (XI XH))))))) :: []))

(** val s_ori : text **)

let s_ori =
  (Npos (XI (XI (XI (XI (XO (XI XH))))))) :: ((Npos (XO (XI (XO (XO (XI (XI
    XH))))))) :: ((Npos (XI (XO (XO (XI (XO (XI XH))))))) :: []))

(** val s_emd : text **)

let s_emd =
  (Npos (XI (XO (XI (XO (XO (XI XH))))))) :: ((Npos (XI (XO (XI (XI (XO (XI
    XH))))))) :: ((Npos (XO (XO (XI (XO (XO (XI XH))))))) :: []))

(** val s_origin : text **)

let s_origin =
  (Npos (XI (XI (XI (XI (XO (XI XH))))))) :: ((Npos (XO (XI (XO (XO (XI (XI
    XH))))))) :: ((Npos (XI (XO (XO (XI (XO (XI XH))))))) :: ((Npos (XI (XI
    (XI (XO (XO (XI XH))))))) :: ((Npos (XI (XO (XO (XI (XO (XI
    XH))))))) :: ((Npos (XO (XI (XI (XI (XO (XI XH))))))) :: [])))))

(** val wS_TABLE : n list **)

let wS_TABLE =
  (Npos (XI (XO (XO XH)))) :: ((Npos (XO (XI (XO XH)))) :: ((Npos (XI (XI (XO
    XH)))) :: ((Npos (XO (XO (XI XH)))) :: ((Npos (XI (XO (XI
    XH)))) :: ((Npos (XO (XO (XI (XI XH))))) :: ((Npos (XI (XO (XI (XI
    XH))))) :: ((Npos (XO (XI (XI (XI XH))))) :: ((Npos (XI (XI (XI (XI
    XH))))) :: ((Npos (XO (XO (XO (XO (XO XH)))))) :: ((Npos (XI (XO (XI (XO
    (XO (XO (XO XH)))))))) :: ((Npos (XO (XO (XO (XO (XO (XI (XO
    XH)))))))) :: ((Npos (XO (XO (XO (XO (XO (XO (XO (XI (XO (XI (XI (XO
    XH))))))))))))) :: ((Npos (XO (XO (XO (XO (XO (XO (XO (XO (XO (XO (XO (XO
    (XO XH)))))))))))))) :: ((Npos (XI (XO (XO (XO (XO (XO (XO (XO (XO (XO
    (XO (XO (XO XH)))))))))))))) :: ((Npos (XO (XI (XO (XO (XO (XO (XO (XO
    (XO (XO (XO (XO (XO XH)))))))))))))) :: ((Npos (XI (XI (XO (XO (XO (XO
    (XO (XO (XO (XO (XO (XO (XO XH)))))))))))))) :: ((Npos (XO (XO (XI (XO
    (XO (XO (XO (XO (XO (XO (XO (XO (XO XH)))))))))))))) :: ((Npos (XI (XO
    (XI (XO (XO (XO (XO (XO (XO (XO (XO (XO (XO XH)))))))))))))) :: ((Npos
    (XO (XI (XI (XO (XO (XO (XO (XO (XO (XO (XO (XO (XO
    XH)))))))))))))) :: ((Npos (XI (XI (XI (XO (XO (XO (XO (XO (XO (XO (XO
    (XO (XO XH)))))))))))))) :: ((Npos (XO (XO (XO (XI (XO (XO (XO (XO (XO
    (XO (XO (XO (XO XH)))))))))))))) :: ((Npos (XI (XO (XO (XI (XO (XO (XO
    (XO (XO (XO (XO (XO (XO XH)))))))))))))) :: ((Npos (XO (XI (XO (XI (XO
    (XO (XO (XO (XO (XO (XO (XO (XO XH)))))))))))))) :: ((Npos (XO (XO (XO
    (XI (XO (XI (XO (XO (XO (XO (XO (XO (XO XH)))))))))))))) :: ((Npos (XI
    (XO (XO (XI (XO (XI (XO (XO (XO (XO (XO (XO (XO
    XH)))))))))))))) :: ((Npos (XI (XI (XI (XI (XO (XI (XO (XO (XO (XO (XO
    (XO (XO XH)))))))))))))) :: ((Npos (XI (XI (XI (XI (XI (XO (XI (XO (XO
    (XO (XO (XO (XO XH)))))))))))))) :: ((Npos (XO (XO (XO (XO (XO (XO (XO
    (XO (XO (XO (XO (XO (XI XH)))))))))))))) :: []))))))))))))))))))))))))))))

(** val is_space : n -> bool **)

let is_space c =
  memb c wS_TABLE

(** val split_on : n -> text -> text list **)

let rec split_on c = function
| [] -> [] :: []
| x :: l' ->
  if N.eqb x c
  then [] :: (split_on c l')
  else (match split_on c l' with
        | [] -> (x :: []) :: []
        | p :: ps -> (x :: p) :: ps)

(** val replace_char : n -> text -> text -> text **)

let replace_char c w t =
  flat_map (fun x -> if N.eqb x c then w else x :: []) t

(** val span : (n -> bool) -> text -> text * text **)

let rec span p l = match l with
| [] -> ([], [])
| x :: l' -> if p x then let (a, r) = span p l' in ((x :: a), r) else ([], l)

(** val first_some : ('a1 -> 'a2 option) -> 'a1 list -> 'a2 option **)

let rec first_some f = function
| [] -> None
| x :: l' -> (match f x with
              | Some y -> Some y
              | None -> first_some f l')

type dict = (text * text) list

(** val dict_get : text -> dict -> text option **)

let dict_get k d =
  fold_left (fun acc kv -> if beqb (fst kv) k then Some (snd kv) else acc) d
    None

(** val over_limit : n -> nat -> bool **)

let over_limit lim ndigits =
  (&&) (negb (N.eqb lim N0)) (N.ltb lim (N.of_nat ndigits))

(** val str_int : n -> z -> text result **)

let str_int lim z0 =
  if over_limit lim (length (dec_N (Z.abs_N z0)))
  then Err EValue
  else Ok (dec_Z z0)

(** val int_of_digits : n -> text -> z result **)

let int_of_digits lim t =
  if over_limit lim (length t)
  then Err EValue
  else (match parse_dec_N t with
        | Some n0 -> Ok (Z.of_N n0)
        | None -> Err EValue)

type core = { c_ty : text; c_oid : bytes }

type qualified = { q_ty : text; q_oid : bytes; q_origin : text option;
                   q_visit : core option; q_anchor : core option;
                   q_path : bytes option; q_lines : (z * z option) option }

(** val core_of : qualified -> core **)

let core_of v =
  { c_ty = v.q_ty; c_oid = v.q_oid }

(** val enum_values : (n list * n list) list -> text list **)

let enum_values tbl =
  map snd tbl

(** val enum_member : n list -> text **)

let enum_member name =
  match find (fun p -> beqb (fst p) name) oBJECT_TYPES with
  | Some p -> snd p
  | None -> []

(** val tY_SNAPSHOT : text **)

let tY_SNAPSHOT =
  enum_member s_SNAPSHOT

(** val tY_DIRECTORY : text **)

let tY_DIRECTORY =
  enum_member s_DIRECTORY

(** val tY_REVISION : text **)

let tY_REVISION =
  enum_member s_REVISION

(** val tY_RELEASE : text **)

let tY_RELEASE =
  enum_member s_RELEASE

(** val aNCHOR_TYPES : text list **)

let aNCHOR_TYPES =
  tY_DIRECTORY :: (tY_REVISION :: (tY_RELEASE :: (tY_SNAPSHOT :: [])))

(** val mk_simple : text list -> text -> bytes -> core result **)

let mk_simple enum ty oid =
  if negb (mem_bytes ty enum)
  then Err EValue
  else if negb
            (Nat.eqb (length oid) (S (S (S (S (S (S (S (S (S (S (S (S (S (S
              (S (S (S (S (S (S O)))))))))))))))))))))
       then Err EValidation
       else Ok { c_ty = ty; c_oid = oid }

(** val mk_q :
    text -> bytes -> text option -> core option -> core option -> bytes
    option -> (z * z option) option -> qualified result **)

let mk_q ty oid origin visit anchor path lines =
  if negb (mem_bytes ty (enum_values oBJECT_TYPES))
  then Err EValue
  else if negb
            (Nat.eqb (length oid) (S (S (S (S (S (S (S (S (S (S (S (S (S (S
              (S (S (S (S (S (S O)))))))))))))))))))))
       then Err EValidation
       else if match visit with
               | Some c -> negb (beqb c.c_ty tY_SNAPSHOT)
               | None -> false
            then Err EValidation
            else if match anchor with
                    | Some c -> negb (mem_bytes c.c_ty aNCHOR_TYPES)
                    | None -> false
                 then Err EValidation
                 else Ok { q_ty = ty; q_oid = oid; q_origin = origin;
                        q_visit = visit; q_anchor = anchor; q_path = path;
                        q_lines = lines }

(** val k_origin : text **)

let k_origin =
  (Npos (XI (XI (XI (XI (XO (XI XH))))))) :: ((Npos (XO (XI (XO (XO (XI (XI
    XH))))))) :: ((Npos (XI (XO (XO (XI (XO (XI XH))))))) :: ((Npos (XI (XI
    (XI (XO (XO (XI XH))))))) :: ((Npos (XI (XO (XO (XI (XO (XI
    XH))))))) :: ((Npos (XO (XI (XI (XI (XO (XI XH))))))) :: [])))))

(** val k_visit : text **)

let k_visit =
  (Npos (XO (XI (XI (XO (XI (XI XH))))))) :: ((Npos (XI (XO (XO (XI (XO (XI
    XH))))))) :: ((Npos (XI (XI (XO (XO (XI (XI XH))))))) :: ((Npos (XI (XO
    (XO (XI (XO (XI XH))))))) :: ((Npos (XO (XO (XI (XO (XI (XI
    XH))))))) :: []))))

(** val k_anchor : text **)

let k_anchor =
  (Npos (XI (XO (XO (XO (XO (XI XH))))))) :: ((Npos (XO (XI (XI (XI (XO (XI
    XH))))))) :: ((Npos (XI (XI (XO (XO (XO (XI XH))))))) :: ((Npos (XO (XO
    (XO (XI (XO (XI XH))))))) :: ((Npos (XI (XI (XI (XI (XO (XI
    XH))))))) :: ((Npos (XO (XI (XO (XO (XI (XI XH))))))) :: [])))))

(** val k_path : text **)

let k_path =
  (Npos (XO (XO (XO (XO (XI (XI XH))))))) :: ((Npos (XI (XO (XO (XO (XO (XI
    XH))))))) :: ((Npos (XO (XO (XI (XO (XI (XI XH))))))) :: ((Npos (XO (XO
    (XO (XI (XO (XI XH))))))) :: [])))

(** val k_lines : text **)

let k_lines =
  (Npos (XO (XO (XI (XI (XO (XI XH))))))) :: ((Npos (XI (XO (XO (XI (XO (XI
    XH))))))) :: ((Npos (XO (XI (XI (XI (XO (XI XH))))))) :: ((Npos (XI (XO
    (XI (XO (XO (XI XH))))))) :: ((Npos (XI (XI (XO (XO (XI (XI
    XH))))))) :: []))))

(** val fIELD_KEYS : text list **)

let fIELD_KEYS =
  k_origin :: (k_visit :: (k_anchor :: (k_path :: (k_lines :: []))))

(** val print_core : core -> text **)

let print_core c =
  app sWHID_NAMESPACE
    (app ((Npos (XO (XI (XO (XI (XI XH)))))) :: [])
      (app (dec_Z sWHID_VERSION)
        (app ((Npos (XO (XI (XO (XI (XI XH)))))) :: [])
          (app c.c_ty
            (app ((Npos (XO (XI (XO (XI (XI XH)))))) :: []) (hexlify c.c_oid))))))

(** val quote_spaces : text -> text option **)

let rec quote_spaces = function
| [] -> Some []
| c :: t' ->
  (match if is_space c then quote_text (c :: []) else Some (c :: []) with
   | Some a ->
     (match quote_spaces t' with
      | Some r -> Some (app a r)
      | None -> None)
   | None -> None)

(** val esc_origin : text -> text option **)

let esc_origin o =
  quote_spaces
    (replace_char (Npos (XI (XI (XO (XI (XI XH)))))) s_pct3B
      (replace_char (Npos (XI (XO (XI (XO (XO XH)))))) s_pct25 o))

(** val print_origin : (text -> text option) -> text -> text result **)

let print_origin esc o = match o with
| [] -> Ok []
| _ :: _ ->
  (match esc o with
   | Some e -> if beqb (unquote e) o then Ok e else Err EAssertion
   | None -> Err EValue)

(** val print_lines : n -> (z * z option) -> text result **)

let print_lines lim = function
| (a, o) ->
  (match o with
   | Some b ->
     bind (str_int lim a) (fun x ->
       bind (str_int lim b) (fun y -> Ok
         (app x (app ((Npos (XI (XO (XI (XI (XO XH)))))) :: []) y))))
   | None -> str_int lim a)

(** val qual_value :
    (text -> text option) -> n -> qualified -> text -> text option result **)

let qual_value esc lim v k =
  if beqb k k_origin
  then (match v.q_origin with
        | Some o -> bind (print_origin esc o) (fun t -> Ok (Some t))
        | None -> Ok None)
  else if beqb k k_visit
       then Ok (option_map print_core v.q_visit)
       else if beqb k k_anchor
            then Ok (option_map print_core v.q_anchor)
            else if beqb k k_path
                 then Ok (option_map quote_from_bytes v.q_path)
                 else if beqb k k_lines
                      then (match v.q_lines with
                            | Some l ->
                              bind (print_lines lim l) (fun t -> Ok (Some t))
                            | None -> Ok None)
                      else Ok None

(** val print_quals :
    (text -> text option) -> n -> qualified -> text list -> text result **)

let rec print_quals esc lim v = function
| [] -> Ok []
| k :: ks' ->
  bind (qual_value esc lim v k) (fun ov ->
    bind (print_quals esc lim v ks') (fun r -> Ok
      (match ov with
       | Some t ->
         app ((Npos (XI (XI (XO (XI (XI XH)))))) :: [])
           (app k (app ((Npos (XI (XO (XI (XI (XI XH)))))) :: []) (app t r)))
       | None -> r)))

(** val print_q_gen :
    (text -> text option) -> n -> qualified -> text result **)

let print_q_gen esc lim v =
  bind (print_quals esc lim v qUALIFIER_PRINT_ORDER) (fun r -> Ok
    (app (print_core (core_of v)) r))

(** val print_q : n -> qualified -> text result **)

let print_q =
  print_q_gen esc_origin

(** val re_head : text **)

let re_head =
  app sWHID_NAMESPACE
    (app ((Npos (XO (XI (XO (XI (XI XH)))))) :: [])
      (app (dec_Z sWHID_VERSION) ((Npos (XO (XI (XO (XI (XI XH)))))) :: [])))

(** val match_after_type :
    text -> text -> ((text * text) * text option) option **)

let match_after_type t r1 =
  match strip_prefix (app t ((Npos (XO (XI (XO (XI (XI XH)))))) :: [])) r1 with
  | Some r2 ->
    let h =
      take (S (S (S (S (S (S (S (S (S (S (S (S (S (S (S (S (S (S (S (S (S (S
        (S (S (S (S (S (S (S (S (S (S (S (S (S (S (S (S (S (S
        O)))))))))))))))))))))))))))))))))))))))) r2
    in
    if (&&)
         (Nat.eqb (length h) (S (S (S (S (S (S (S (S (S (S (S (S (S (S (S (S
           (S (S (S (S (S (S (S (S (S (S (S (S (S (S (S (S (S (S (S (S (S (S
           (S (S O)))))))))))))))))))))))))))))))))))))))))
         (forallb is_lower_hex h)
    then (match drop (S (S (S (S (S (S (S (S (S (S (S (S (S (S (S (S (S (S (S
                  (S (S (S (S (S (S (S (S (S (S (S (S (S (S (S (S (S (S (S (S
                  (S O)))))))))))))))))))))))))))))))))))))))) r2 with
          | [] -> Some ((t, h), None)
          | c :: qs ->
            if (&&)
                 ((&&) (N.eqb c (Npos (XI (XI (XO (XI (XI XH)))))))
                   (negb (is_nil qs)))
                 (forallb (fun x -> negb (is_space x)) qs)
            then Some ((t, h), (Some qs))
            else None)
    else None
  | None -> None

(** val match_swhid_re : text -> ((text * text) * text option) option **)

let match_swhid_re s =
  match strip_prefix re_head s with
  | Some r1 ->
    first_some (fun t -> match_after_type t r1) eXTENDED_SWHID_TYPES
  | None -> None

(** val parse_quals : text list -> dict result **)

let rec parse_quals = function
| [] -> Ok []
| q :: rest ->
  let (k, o) = cut (Npos (XI (XO (XI (XI (XI XH)))))) q in
  (match o with
   | Some v -> bind (parse_quals rest) (fun d -> Ok ((k, v) :: d))
   | None -> Err EValidation)

(** val parse_swhid : text -> ((text * bytes) * dict) result **)

let parse_swhid s =
  match match_swhid_re s with
  | Some p ->
    let (p0, qraw) = p in
    let (ty, h) = p0 in
    bind
      (match qraw with
       | Some raw ->
         parse_quals (split_on (Npos (XI (XI (XO (XI (XI XH)))))) raw)
       | None -> Ok []) (fun d ->
      match parse_dec_Z (dec_Z sWHID_VERSION) with
      | Some ver ->
        (match unhex h with
         | Some oid ->
           if Z.eqb ver sWHID_VERSION
           then Ok ((ty, oid), d)
           else Err EValidation
         | None -> Err EValue)
      | None -> Err EValue)
  | None -> Err EValidation

(** val parse_simple : text list -> text -> core result **)

let parse_simple enum s =
  bind (parse_swhid s) (fun p ->
    let (p0, d) = p in
    let (ty, oid) = p0 in
    if negb (is_nil d)
    then Err EValidation
    else value_error_to_validation (mk_simple enum ty oid))

(** val parse_core : text -> core result **)

let parse_core =
  parse_simple (enum_values oBJECT_TYPES)

(** val parse_ext : text -> core result **)

let parse_ext =
  parse_simple (enum_values eXTENDED_OBJECT_TYPES)

(** val lines_re_match : text -> bool **)

let lines_re_match t =
  let (a, r) = span is_digit t in
  (&&) (negb (is_nil a))
    (match r with
     | [] -> true
     | c :: r' ->
       (&&) (N.eqb c (Npos (XI (XO (XI (XI (XO XH)))))))
         (let (b, r2) = span is_digit r' in (&&) (negb (is_nil b)) (is_nil r2)))

(** val parse_lines : n -> text -> (z * z option) result **)

let parse_lines lim t =
  value_error_to_validation
    (if negb (lines_re_match t)
     then Err EValue
     else let (a, o) = cut (Npos (XI (XO (XI (XI (XO XH)))))) t in
          (match o with
           | Some b ->
             if memb (Npos (XI (XO (XI (XI (XO XH)))))) b
             then Err EValue
             else bind (int_of_digits lim a) (fun x ->
                    bind (int_of_digits lim b) (fun y -> Ok (x, (Some y))))
           | None -> bind (int_of_digits lim a) (fun x -> Ok (x, None))))

(** val opt_conv :
    (text -> 'a1 result) -> text option -> 'a1 option result **)

let opt_conv f = function
| Some t -> bind (f t) (fun a -> Ok (Some a))
| None -> Ok None

(** val parse_path : text -> bytes result **)

let parse_path t =
  match unquote_to_bytes t with
  | Some b -> Ok b
  | None -> Err EValue

(** val construct_q :
    (n -> text -> (z * z option) result) -> n -> text -> bytes -> dict ->
    qualified result **)

let construct_q pl lim ty oid d =
  if existsb (fun kv -> negb (mem_bytes (fst kv) fIELD_KEYS)) d
  then Err EType
  else if negb (mem_bytes ty (enum_values oBJECT_TYPES))
       then Err EValue
       else bind (opt_conv parse_core (dict_get k_visit d)) (fun visit ->
              bind (opt_conv parse_core (dict_get k_anchor d)) (fun anchor ->
                bind (opt_conv parse_path (dict_get k_path d)) (fun path ->
                  bind (opt_conv (pl lim) (dict_get k_lines d)) (fun lines ->
                    mk_q ty oid (dict_get k_origin d) visit anchor path lines))))

(** val unquote_origin : dict -> dict **)

let unquote_origin d =
  match dict_get k_origin d with
  | Some o -> app d ((k_origin, (unquote o)) :: [])
  | None -> d

(** val parse_q_gen :
    (n -> text -> (z * z option) result) -> n -> text -> qualified result **)

let parse_q_gen pl lim s =
  bind (parse_swhid s) (fun p ->
    let (p0, d) = p in
    let (ty, oid) = p0 in
    if existsb (fun kv -> negb (mem_bytes (fst kv) sWHID_QUALIFIERS)) d
    then Err EValidation
    else value_error_to_validation
           (construct_q pl lim ty oid (unquote_origin d)))

(** val parse_q : n -> text -> qualified result **)

let parse_q =
  parse_q_gen parse_lines

(** val dOC_CORE_TYPES : text list **)

let dOC_CORE_TYPES =
  s_snp :: (s_rel :: (s_rev :: (s_dir :: (s_cnt :: []))))

(** val dOC_EXT_TYPES : text list **)

let dOC_EXT_TYPES =
  app dOC_CORE_TYPES (s_ori :: (s_emd :: []))

(** val dOC_VISIT_TYPES : text list **)

let dOC_VISIT_TYPES =
  s_snp :: []

(** val dOC_ANCHOR_TYPES : text list **)

let dOC_ANCHOR_TYPES =
  s_dir :: (s_rev :: (s_rel :: (s_snp :: [])))

(** val dOC_KEYS : text list **)

let dOC_KEYS =
  s_origin :: (s_visit :: (s_anchor :: (s_path :: (s_lines :: []))))

(** val lang_head : text list -> text -> text option **)

let lang_head types s =
  if (&&)
       ((&&)
         ((&&)
           ((&&) (beqb (firstn (S (S (S (S (S (S O)))))) s) s_swh1)
             (mem_bytes
               (firstn (S (S (S O))) (skipn (S (S (S (S (S (S O)))))) s))
               types))
           (beqb
             (firstn (S O) (skipn (S (S (S (S (S (S (S (S (S O))))))))) s))
             s_colon))
         (Nat.eqb
           (length
             (firstn (S (S (S (S (S (S (S (S (S (S (S (S (S (S (S (S (S (S (S
               (S (S (S (S (S (S (S (S (S (S (S (S (S (S (S (S (S (S (S (S (S
               O))))))))))))))))))))))))))))))))))))))))
               (skipn (S (S (S (S (S (S (S (S (S (S O)))))))))) s))) (S (S (S
           (S (S (S (S (S (S (S (S (S (S (S (S (S (S (S (S (S (S (S (S (S (S
           (S (S (S (S (S (S (S (S (S (S (S (S (S (S (S
           O))))))))))))))))))))))))))))))))))))))))))
       (forallb is_lower_hex
         (firstn (S (S (S (S (S (S (S (S (S (S (S (S (S (S (S (S (S (S (S (S
           (S (S (S (S (S (S (S (S (S (S (S (S (S (S (S (S (S (S (S (S
           O))))))))))))))))))))))))))))))))))))))))
           (skipn (S (S (S (S (S (S (S (S (S (S O)))))))))) s)))
  then Some
         (skipn (S (S (S (S (S (S (S (S (S (S (S (S (S (S (S (S (S (S (S (S
           (S (S (S (S (S (S (S (S (S (S (S (S (S (S (S (S (S (S (S (S (S (S
           (S (S (S (S (S (S (S (S
           O)))))))))))))))))))))))))))))))))))))))))))))))))) s)
  else None

(** val lang_id : text list -> text -> bool **)

let lang_id types s =
  match lang_head types s with
  | Some t -> (match t with
               | [] -> true
               | _ :: _ -> false)
  | None -> false

(** val lang_core : text -> bool **)

let lang_core =
  lang_id dOC_CORE_TYPES

(** val lang_ext : text -> bool **)

let lang_ext =
  lang_id dOC_EXT_TYPES

(** val digits1 : text -> bool **)

let digits1 t =
  (&&) (negb (is_nil t)) (forallb is_digit t)

(** val lang_lines : text -> bool **)

let lang_lines t =
  let (a, o) = cut (Npos (XI (XO (XI (XI (XO XH)))))) t in
  (match o with
   | Some b -> (&&) (digits1 a) (digits1 b)
   | None -> digits1 a)

(** val item_kv : text -> (text * text) option **)

let item_kv it =
  let (k, o) = cut (Npos (XI (XO (XI (XI (XI XH)))))) it in
  (match o with
   | Some v -> Some (k, v)
   | None -> None)

(** val effective : text -> text list -> text option **)

let effective k items =
  match filter (fun kv -> beqb (fst kv) k)
          (flat_map (fun it ->
            match item_kv it with
            | Some kv -> kv :: []
            | None -> []) items) with
  | [] -> None
  | p :: l -> Some (snd (last (p :: l) ([], [])))

(** val opt_ok : (text -> bool) -> text option -> bool **)

let opt_ok p = function
| Some t -> p t
| None -> true

(** val lang_q : text -> bool **)

let lang_q s =
  match lang_head dOC_CORE_TYPES s with
  | Some t ->
    (match t with
     | [] -> true
     | c :: qs ->
       (&&)
         ((&&)
           ((&&) (N.eqb c (Npos (XI (XI (XO (XI (XI XH)))))))
             (negb (is_nil qs))) (forallb (fun x -> negb (is_space x)) qs))
         (let items = split_on (Npos (XI (XI (XO (XI (XI XH)))))) qs in
          (&&)
            ((&&)
              ((&&)
                ((&&)
                  (forallb (fun it ->
                    match item_kv it with
                    | Some p -> let (k, _) = p in mem_bytes k dOC_KEYS
                    | None -> false) items)
                  (opt_ok (lang_id dOC_VISIT_TYPES) (effective s_visit items)))
                (opt_ok (lang_id dOC_ANCHOR_TYPES) (effective s_anchor items)))
              (opt_ok lang_lines (effective s_lines items)))
            (opt_ok (forallb is_scalar) (effective s_path items))))
  | None -> false

(** val max_digit_run : nat -> nat -> text -> nat **)

let rec max_digit_run cur best = function
| [] -> Nat.max cur best
| c :: t' ->
  if is_digit c
  then max_digit_run (S cur) best t'
  else max_digit_run O (Nat.max cur best) t'

(** val within_limit : n -> text -> bool **)

let within_limit lim t =
  negb (over_limit lim (max_digit_run O O t))
