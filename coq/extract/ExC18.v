(* Extraction of the C18 model.  ExtrOcamlBasic only; no Extract Constant /
   Extract Inductive of our own. *)
Require Extraction.
Require Import ExtrOcamlBasic.
From Coq Require Import BinNums.
From SWH.model Require Import Cli.
Extraction "extract/C18/model.ml" identify_model spec spec_strict in_scope in_scope_literal designated
  identify_old_realpath identify_old_rectype identify_old_autolink identify_old_recfollows identify_old_originuncaught identify_old_stopswallowed all_cfgs nondefault identify_many spec_many in_scope_many
  (* number types that ocaml/conv.ml expects to see *) positive N Z.
