
val negb : bool -> bool

type nat =
| O
| S of nat

val option_map : ('a1 -> 'a2) -> 'a1 option -> 'a2 option

val length : 'a1 list -> nat

val app : 'a1 list -> 'a1 list -> 'a1 list

type comparison =
| Eq
| Lt
| Gt

val compOpp : comparison -> comparison

type uint =
| Nil
| D0 of uint
| D1 of uint
| D2 of uint
| D3 of uint
| D4 of uint
| D5 of uint
| D6 of uint
| D7 of uint
| D8 of uint
| D9 of uint

val revapp : uint -> uint -> uint

val rev : uint -> uint

module Little :
 sig
  val double : uint -> uint

  val succ_double : uint -> uint
 end

val sub : nat -> nat -> nat

module Nat :
 sig
  val leb : nat -> nat -> bool
 end

val forallb : ('a1 -> bool) -> 'a1 list -> bool

val firstn : nat -> 'a1 list -> 'a1 list

val skipn : nat -> 'a1 list -> 'a1 list

val repeat : 'a1 -> nat -> 'a1 list

type positive =
| XI of positive
| XO of positive
| XH

type n =
| N0
| Npos of positive

type z =
| Z0
| Zpos of positive
| Zneg of positive

module Pos :
 sig
  val succ : positive -> positive

  val add : positive -> positive -> positive

  val add_carry : positive -> positive -> positive

  val pred_double : positive -> positive

  val mul : positive -> positive -> positive

  val iter : ('a1 -> 'a1) -> 'a1 -> positive -> 'a1

  val compare_cont : comparison -> positive -> positive -> comparison

  val compare : positive -> positive -> comparison

  val eqb : positive -> positive -> bool

  val of_succ_nat : nat -> positive

  val of_uint_acc : uint -> positive -> positive

  val of_uint : uint -> n

  val to_little_uint : positive -> uint

  val to_uint : positive -> uint
 end

module N :
 sig
  val compare : n -> n -> comparison

  val eqb : n -> n -> bool

  val leb : n -> n -> bool

  val ltb : n -> n -> bool

  val of_nat : nat -> n

  val of_uint : uint -> n

  val to_uint : n -> uint
 end

module Z :
 sig
  val double : z -> z

  val succ_double : z -> z

  val pred_double : z -> z

  val pos_sub : positive -> positive -> z

  val add : z -> z -> z

  val opp : z -> z

  val sub : z -> z -> z

  val mul : z -> z -> z

  val pow_pos : z -> positive -> z

  val pow : z -> z -> z

  val compare : z -> z -> comparison

  val leb : z -> z -> bool

  val ltb : z -> z -> bool

  val eqb : z -> z -> bool

  val abs : z -> z

  val to_N : z -> n

  val of_nat : nat -> z

  val of_N : n -> z

  val pos_div_eucl : positive -> z -> z * z

  val div_eucl : z -> z -> z * z

  val div : z -> z -> z

  val modulo : z -> z -> z
 end

type bytes = n list

val beqb : bytes -> bytes -> bool

val cut : n -> bytes -> bytes * bytes option

val sP : n

val uint_bytes : uint -> bytes

val is_digit : n -> bool

val mkD : n -> uint -> uint

val bytes_uint : bytes -> uint option

val dec_N : n -> bytes

val parse_dec_N : bytes -> n option

val dec_Z : z -> bytes

val parse_dec_Z : bytes -> z option

val dec_pad : nat -> n -> bytes

val rstrip0 : bytes -> bytes

val tS_MIN_SECONDS : z

val tS_MAX_SECONDS : z

val tS_MIN_MICROSECONDS : z

val tS_MAX_MICROSECONDS : z

type err =
| ETimestampOverflow
| EAttributeType
| EValue
| EAssertion
| EKey
| EOverflow
| EUnmodelled

type 'a result =
| Ok of 'a
| Err of err

val bind : 'a1 result -> ('a1 -> 'a2 result) -> 'a2 result

type pyval =
| VInt of z
| VBool of bool
| VOther

type timestamp = { seconds : z; microseconds : z }

val check_seconds : pyval -> z result

val check_microseconds : pyval -> z result

val mk_timestamp : pyval -> pyval -> timestamp result

type tstz = { ts : timestamp; offset_bytes : bytes }

val pLUS : n

val mINUS : n

val dOT : n

val oB_PLUS0000 : bytes

val oB_MINUS0000 : bytes

val iNT_MAX_STR_DIGITS : n

val py_int_digits : bytes -> z result

val is_nil : 'a1 list -> bool

val offset_modelled : bytes -> bool

val parse_offset_bytes : bytes -> z result

val offset_minutes : tstz -> z result

val offset_to_bytes : z -> bool -> bytes

val from_numeric_offset : timestamp -> z -> bool -> tstz result

type adt = { epoch_us : z; off_s : z }

val mILLION : z

val dT_MIN_US : z

val dT_MAX_US : z

val dt_local_us : adt -> z

val wall_ok : z -> bool

val dt_valid : adt -> bool

val astimezone_utc : adt -> adt result

val dt_microsecond : adt -> z

val replace_microsecond : adt -> z -> adt result

val dt_timestamp_int : adt -> z

val fromtimestamp : z -> z -> adt result

val from_datetime : adt -> tstz result

val to_datetime : tstz -> adt result

val from_iso8601_parsed : adt -> bool -> tstz result

type ts_repr =
| TsDict of pyval option * pyval option
| TsInt of pyval
| TsOther

type time_repr =
| TRDictNew of ts_repr option * bytes option
| TRDictOld of ts_repr option * z option * bool option
| TRDatetime of adt
| TRNaive
| TRInt of pyval
| TROther

val default : pyval -> pyval option -> pyval

val timestamp_of_repr : ts_repr option -> timestamp result

val from_dict : time_repr -> tstz result

val fmt_06d : z -> bytes

val format_date : timestamp -> bytes

val author_date_part : tstz -> bytes

val parse_date : bytes -> (z * z) option

val z_range_pos : positive -> z -> z list

val z_range : z -> positive -> z list
