
(** val negb : bool -> bool **)

let negb = function
| true -> false
| false -> true

type nat =
| O
| S of nat

(** val option_map : ('a1 -> 'a2) -> 'a1 option -> 'a2 option **)

let option_map f = function
| Some a -> Some (f a)
| None -> None

(** val length : 'a1 list -> nat **)

let rec length = function
| [] -> O
| _ :: l' -> S (length l')

(** val app : 'a1 list -> 'a1 list -> 'a1 list **)

let rec app l m =
  match l with
  | [] -> m
  | a :: l1 -> a :: (app l1 m)

type comparison =
| Eq
| Lt
| Gt

(** val compOpp : comparison -> comparison **)

let compOpp = function
| Eq -> Eq
| Lt -> Gt
| Gt -> Lt

type uint =
| Nil
| D0 of uint
| D1 of uint
| D2 of uint
| D3 of uint
| D4 of uint
| D5 of uint
| D6 of uint
| D7 of uint
| D8 of uint
| D9 of uint

(** val revapp : uint -> uint -> uint **)

let rec revapp d d' =
  match d with
  | Nil -> d'
  | D0 d0 -> revapp d0 (D0 d')
  | D1 d0 -> revapp d0 (D1 d')
  | D2 d0 -> revapp d0 (D2 d')
  | D3 d0 -> revapp d0 (D3 d')
  | D4 d0 -> revapp d0 (D4 d')
  | D5 d0 -> revapp d0 (D5 d')
  | D6 d0 -> revapp d0 (D6 d')
  | D7 d0 -> revapp d0 (D7 d')
  | D8 d0 -> revapp d0 (D8 d')
  | D9 d0 -> revapp d0 (D9 d')

(** val rev : uint -> uint **)

let rev d =
  revapp d Nil

module Little =
 struct
  (** val double : uint -> uint **)

  let rec double = function
  | Nil -> Nil
  | D0 d0 -> D0 (double d0)
  | D1 d0 -> D2 (double d0)
  | D2 d0 -> D4 (double d0)
  | D3 d0 -> D6 (double d0)
  | D4 d0 -> D8 (double d0)
  | D5 d0 -> D0 (succ_double d0)
  | D6 d0 -> D2 (succ_double d0)
  | D7 d0 -> D4 (succ_double d0)
  | D8 d0 -> D6 (succ_double d0)
  | D9 d0 -> D8 (succ_double d0)

  (** val succ_double : uint -> uint **)

  and succ_double = function
  | Nil -> D1 Nil
  | D0 d0 -> D1 (double d0)
  | D1 d0 -> D3 (double d0)
  | D2 d0 -> D5 (double d0)
  | D3 d0 -> D7 (double d0)
  | D4 d0 -> D9 (double d0)
  | D5 d0 -> D1 (succ_double d0)
  | D6 d0 -> D3 (succ_double d0)
  | D7 d0 -> D5 (succ_double d0)
  | D8 d0 -> D7 (succ_double d0)
  | D9 d0 -> D9 (succ_double d0)
 end

(** val sub : nat -> nat -> nat **)

let rec sub n0 m =
  match n0 with
  | O -> n0
  | S k -> (match m with
            | O -> n0
            | S l -> sub k l)

module Nat =
 struct
  (** val leb : nat -> nat -> bool **)

  let rec leb n0 m =
    match n0 with
    | O -> true
    | S n' -> (match m with
               | O -> false
               | S m' -> leb n' m')
 end

(** val forallb : ('a1 -> bool) -> 'a1 list -> bool **)

let rec forallb f = function
| [] -> true
| a :: l0 -> (&&) (f a) (forallb f l0)

(** val firstn : nat -> 'a1 list -> 'a1 list **)

let rec firstn n0 l =
  match n0 with
  | O -> []
  | S n1 -> (match l with
             | [] -> []
             | a :: l0 -> a :: (firstn n1 l0))

(** val skipn : nat -> 'a1 list -> 'a1 list **)

let rec skipn n0 l =
  match n0 with
  | O -> l
  | S n1 -> (match l with
             | [] -> []
             | _ :: l0 -> skipn n1 l0)

(** val repeat : 'a1 -> nat -> 'a1 list **)

let rec repeat x = function
| O -> []
| S k -> x :: (repeat x k)

type positive =
| XI of positive
| XO of positive
| XH

type n =
| N0
| Npos of positive

type z =
| Z0
| Zpos of positive
| Zneg of positive

module Pos =
 struct
  (** val succ : positive -> positive **)

  let rec succ = function
  | XI p -> XO (succ p)
  | XO p -> XI p
  | XH -> XO XH

  (** val add : positive -> positive -> positive **)

  let rec add x y =
    match x with
    | XI p ->
      (match y with
       | XI q -> XO (add_carry p q)
       | XO q -> XI (add p q)
       | XH -> XO (succ p))
    | XO p ->
      (match y with
       | XI q -> XI (add p q)
       | XO q -> XO (add p q)
       | XH -> XI p)
    | XH -> (match y with
             | XI q -> XO (succ q)
             | XO q -> XI q
             | XH -> XO XH)

  (** val add_carry : positive -> positive -> positive **)

  and add_carry x y =
    match x with
    | XI p ->
      (match y with
       | XI q -> XI (add_carry p q)
       | XO q -> XO (add_carry p q)
       | XH -> XI (succ p))
    | XO p ->
      (match y with
       | XI q -> XO (add_carry p q)
       | XO q -> XI (add p q)
       | XH -> XO (succ p))
    | XH ->
      (match y with
       | XI q -> XI (succ q)
       | XO q -> XO (succ q)
       | XH -> XI XH)

  (** val pred_double : positive -> positive **)

  let rec pred_double = function
  | XI p -> XI (XO p)
  | XO p -> XI (pred_double p)
  | XH -> XH

  (** val mul : positive -> positive -> positive **)

  let rec mul x y =
    match x with
    | XI p -> add y (XO (mul p y))
    | XO p -> XO (mul p y)
    | XH -> y

  (** val iter : ('a1 -> 'a1) -> 'a1 -> positive -> 'a1 **)

  let rec iter f x = function
  | XI n' -> f (iter f (iter f x n') n')
  | XO n' -> iter f (iter f x n') n'
  | XH -> f x

  (** val compare_cont : comparison -> positive -> positive -> comparison **)

  let rec compare_cont r x y =
    match x with
    | XI p ->
      (match y with
       | XI q -> compare_cont r p q
       | XO q -> compare_cont Gt p q
       | XH -> Gt)
    | XO p ->
      (match y with
       | XI q -> compare_cont Lt p q
       | XO q -> compare_cont r p q
       | XH -> Gt)
    | XH -> (match y with
             | XH -> r
             | _ -> Lt)

  (** val compare : positive -> positive -> comparison **)

  let compare =
    compare_cont Eq

  (** val eqb : positive -> positive -> bool **)

  let rec eqb p q =
    match p with
    | XI p0 -> (match q with
                | XI q0 -> eqb p0 q0
                | _ -> false)
    | XO p0 -> (match q with
                | XO q0 -> eqb p0 q0
                | _ -> false)
    | XH -> (match q with
             | XH -> true
             | _ -> false)

  (** val of_succ_nat : nat -> positive **)

  let rec of_succ_nat = function
  | O -> XH
  | S x -> succ (of_succ_nat x)

  (** val of_uint_acc : uint -> positive -> positive **)

  let rec of_uint_acc d acc =
    match d with
    | Nil -> acc
    | D0 l -> of_uint_acc l (mul (XO (XI (XO XH))) acc)
    | D1 l -> of_uint_acc l (add XH (mul (XO (XI (XO XH))) acc))
    | D2 l -> of_uint_acc l (add (XO XH) (mul (XO (XI (XO XH))) acc))
    | D3 l -> of_uint_acc l (add (XI XH) (mul (XO (XI (XO XH))) acc))
    | D4 l -> of_uint_acc l (add (XO (XO XH)) (mul (XO (XI (XO XH))) acc))
    | D5 l -> of_uint_acc l (add (XI (XO XH)) (mul (XO (XI (XO XH))) acc))
    | D6 l -> of_uint_acc l (add (XO (XI XH)) (mul (XO (XI (XO XH))) acc))
    | D7 l -> of_uint_acc l (add (XI (XI XH)) (mul (XO (XI (XO XH))) acc))
    | D8 l ->
      of_uint_acc l (add (XO (XO (XO XH))) (mul (XO (XI (XO XH))) acc))
    | D9 l ->
      of_uint_acc l (add (XI (XO (XO XH))) (mul (XO (XI (XO XH))) acc))

  (** val of_uint : uint -> n **)

  let rec of_uint = function
  | Nil -> N0
  | D0 l -> of_uint l
  | D1 l -> Npos (of_uint_acc l XH)
  | D2 l -> Npos (of_uint_acc l (XO XH))
  | D3 l -> Npos (of_uint_acc l (XI XH))
  | D4 l -> Npos (of_uint_acc l (XO (XO XH)))
  | D5 l -> Npos (of_uint_acc l (XI (XO XH)))
  | D6 l -> Npos (of_uint_acc l (XO (XI XH)))
  | D7 l -> Npos (of_uint_acc l (XI (XI XH)))
  | D8 l -> Npos (of_uint_acc l (XO (XO (XO XH))))
  | D9 l -> Npos (of_uint_acc l (XI (XO (XO XH))))

  (** val to_little_uint : positive -> uint **)

  let rec to_little_uint = function
  | XI p0 -> Little.succ_double (to_little_uint p0)
  | XO p0 -> Little.double (to_little_uint p0)
  | XH -> D1 Nil

  (** val to_uint : positive -> uint **)

  let to_uint p =
    rev (to_little_uint p)
 end

module N =
 struct
  (** val compare : n -> n -> comparison **)

  let compare n0 m =
    match n0 with
    | N0 -> (match m with
             | N0 -> Eq
             | Npos _ -> Lt)
    | Npos n' -> (match m with
                  | N0 -> Gt
                  | Npos m' -> Pos.compare n' m')

  (** val eqb : n -> n -> bool **)

  let eqb n0 m =
    match n0 with
    | N0 -> (match m with
             | N0 -> true
             | Npos _ -> false)
    | Npos p -> (match m with
                 | N0 -> false
                 | Npos q -> Pos.eqb p q)

  (** val leb : n -> n -> bool **)

  let leb x y =
    match compare x y with
    | Gt -> false
    | _ -> true

  (** val ltb : n -> n -> bool **)

  let ltb x y =
    match compare x y with
    | Lt -> true
    | _ -> false

  (** val of_nat : nat -> n **)

  let of_nat = function
  | O -> N0
  | S n' -> Npos (Pos.of_succ_nat n')

  (** val of_uint : uint -> n **)

  let of_uint =
    Pos.of_uint

  (** val to_uint : n -> uint **)

  let to_uint = function
  | N0 -> D0 Nil
  | Npos p -> Pos.to_uint p
 end

module Z =
 struct
  (** val double : z -> z **)

  let double = function
  | Z0 -> Z0
  | Zpos p -> Zpos (XO p)
  | Zneg p -> Zneg (XO p)

  (** val succ_double : z -> z **)

  let succ_double = function
  | Z0 -> Zpos XH
  | Zpos p -> Zpos (XI p)
  | Zneg p -> Zneg (Pos.pred_double p)

  (** val pred_double : z -> z **)

  let pred_double = function
  | Z0 -> Zneg XH
  | Zpos p -> Zpos (Pos.pred_double p)
  | Zneg p -> Zneg (XI p)

  (** val pos_sub : positive -> positive -> z **)

  let rec pos_sub x y =
    match x with
    | XI p ->
      (match y with
       | XI q -> double (pos_sub p q)
       | XO q -> succ_double (pos_sub p q)
       | XH -> Zpos (XO p))
    | XO p ->
      (match y with
       | XI q -> pred_double (pos_sub p q)
       | XO q -> double (pos_sub p q)
       | XH -> Zpos (Pos.pred_double p))
    | XH ->
      (match y with
       | XI q -> Zneg (XO q)
       | XO q -> Zneg (Pos.pred_double q)
       | XH -> Z0)

  (** val add : z -> z -> z **)

  let add x y =
    match x with
    | Z0 -> y
    | Zpos x' ->
      (match y with
       | Z0 -> x
       | Zpos y' -> Zpos (Pos.add x' y')
       | Zneg y' -> pos_sub x' y')
    | Zneg x' ->
      (match y with
       | Z0 -> x
       | Zpos y' -> pos_sub y' x'
       | Zneg y' -> Zneg (Pos.add x' y'))

  (** val opp : z -> z **)

  let opp = function
  | Z0 -> Z0
  | Zpos x0 -> Zneg x0
  | Zneg x0 -> Zpos x0

  (** val sub : z -> z -> z **)

  let sub m n0 =
    add m (opp n0)

  (** val mul : z -> z -> z **)

  let mul x y =
    match x with
    | Z0 -> Z0
    | Zpos x' ->
      (match y with
       | Z0 -> Z0
       | Zpos y' -> Zpos (Pos.mul x' y')
       | Zneg y' -> Zneg (Pos.mul x' y'))
    | Zneg x' ->
      (match y with
       | Z0 -> Z0
       | Zpos y' -> Zneg (Pos.mul x' y')
       | Zneg y' -> Zpos (Pos.mul x' y'))

  (** val pow_pos : z -> positive -> z **)

  let pow_pos z0 =
    Pos.iter (mul z0) (Zpos XH)

  (** val pow : z -> z -> z **)

  let pow x = function
  | Z0 -> Zpos XH
  | Zpos p -> pow_pos x p
  | Zneg _ -> Z0

  (** val compare : z -> z -> comparison **)

  let compare x y =
    match x with
    | Z0 -> (match y with
             | Z0 -> Eq
             | Zpos _ -> Lt
             | Zneg _ -> Gt)
    | Zpos x' -> (match y with
                  | Zpos y' -> Pos.compare x' y'
                  | _ -> Gt)
    | Zneg x' ->
      (match y with
       | Zneg y' -> compOpp (Pos.compare x' y')
       | _ -> Lt)

  (** val leb : z -> z -> bool **)

  let leb x y =
    match compare x y with
    | Gt -> false
    | _ -> true

  (** val ltb : z -> z -> bool **)

  let ltb x y =
    match compare x y with
    | Lt -> true
    | _ -> false

  (** val eqb : z -> z -> bool **)

  let eqb x y =
    match x with
    | Z0 -> (match y with
             | Z0 -> true
             | _ -> false)
    | Zpos p -> (match y with
                 | Zpos q -> Pos.eqb p q
                 | _ -> false)
    | Zneg p -> (match y with
                 | Zneg q -> Pos.eqb p q
                 | _ -> false)

  (** val abs : z -> z **)

  let abs = function
  | Zneg p -> Zpos p
  | x -> x

  (** val to_N : z -> n **)

  let to_N = function
  | Zpos p -> Npos p
  | _ -> N0

  (** val of_nat : nat -> z **)

  let of_nat = function
  | O -> Z0
  | S n1 -> Zpos (Pos.of_succ_nat n1)

  (** val of_N : n -> z **)

  let of_N = function
  | N0 -> Z0
  | Npos p -> Zpos p

  (** val pos_div_eucl : positive -> z -> z * z **)

  let rec pos_div_eucl a b =
    match a with
    | XI a' ->
      let (q, r) = pos_div_eucl a' b in
      let r' = add (mul (Zpos (XO XH)) r) (Zpos XH) in
      if ltb r' b
      then ((mul (Zpos (XO XH)) q), r')
      else ((add (mul (Zpos (XO XH)) q) (Zpos XH)), (sub r' b))
    | XO a' ->
      let (q, r) = pos_div_eucl a' b in
      let r' = mul (Zpos (XO XH)) r in
      if ltb r' b
      then ((mul (Zpos (XO XH)) q), r')
      else ((add (mul (Zpos (XO XH)) q) (Zpos XH)), (sub r' b))
    | XH -> if leb (Zpos (XO XH)) b then (Z0, (Zpos XH)) else ((Zpos XH), Z0)

  (** val div_eucl : z -> z -> z * z **)

  let div_eucl a b =
    match a with
    | Z0 -> (Z0, Z0)
    | Zpos a' ->
      (match b with
       | Z0 -> (Z0, a)
       | Zpos _ -> pos_div_eucl a' b
       | Zneg b' ->
         let (q, r) = pos_div_eucl a' (Zpos b') in
         (match r with
          | Z0 -> ((opp q), Z0)
          | _ -> ((opp (add q (Zpos XH))), (add b r))))
    | Zneg a' ->
      (match b with
       | Z0 -> (Z0, a)
       | Zpos _ ->
         let (q, r) = pos_div_eucl a' b in
         (match r with
          | Z0 -> ((opp q), Z0)
          | _ -> ((opp (add q (Zpos XH))), (sub b r)))
       | Zneg b' -> let (q, r) = pos_div_eucl a' (Zpos b') in (q, (opp r)))

  (** val div : z -> z -> z **)

  let div a b =
    let (q, _) = div_eucl a b in q

  (** val modulo : z -> z -> z **)

  let modulo a b =
    let (_, r) = div_eucl a b in r
 end

type bytes = n list

(** val beqb : bytes -> bytes -> bool **)

let rec beqb a b =
  match a with
  | [] -> (match b with
           | [] -> true
           | _ :: _ -> false)
  | x :: a' ->
    (match b with
     | [] -> false
     | y :: b' -> (&&) (N.eqb x y) (beqb a' b'))

(** val cut : n -> bytes -> bytes * bytes option **)

let rec cut c = function
| [] -> ([], None)
| x :: l' ->
  if N.eqb x c
  then ([], (Some l'))
  else let (a, r) = cut c l' in ((x :: a), r)

(** val sP : n **)

let sP =
  Npos (XO (XO (XO (XO (XO XH)))))

(** val uint_bytes : uint -> bytes **)

let rec uint_bytes = function
| Nil -> []
| D0 d0 -> (Npos (XO (XO (XO (XO (XI XH)))))) :: (uint_bytes d0)
| D1 d0 -> (Npos (XI (XO (XO (XO (XI XH)))))) :: (uint_bytes d0)
| D2 d0 -> (Npos (XO (XI (XO (XO (XI XH)))))) :: (uint_bytes d0)
| D3 d0 -> (Npos (XI (XI (XO (XO (XI XH)))))) :: (uint_bytes d0)
| D4 d0 -> (Npos (XO (XO (XI (XO (XI XH)))))) :: (uint_bytes d0)
| D5 d0 -> (Npos (XI (XO (XI (XO (XI XH)))))) :: (uint_bytes d0)
| D6 d0 -> (Npos (XO (XI (XI (XO (XI XH)))))) :: (uint_bytes d0)
| D7 d0 -> (Npos (XI (XI (XI (XO (XI XH)))))) :: (uint_bytes d0)
| D8 d0 -> (Npos (XO (XO (XO (XI (XI XH)))))) :: (uint_bytes d0)
| D9 d0 -> (Npos (XI (XO (XO (XI (XI XH)))))) :: (uint_bytes d0)

(** val is_digit : n -> bool **)

let is_digit b =
  (&&) (N.leb (Npos (XO (XO (XO (XO (XI XH)))))) b)
    (N.leb b (Npos (XI (XO (XO (XI (XI XH)))))))

(** val mkD : n -> uint -> uint **)

let mkD b d =
  match b with
  | N0 -> D9 d
  | Npos p ->
    (match p with
     | XI p0 ->
       (match p0 with
        | XI p1 ->
          (match p1 with
           | XI p2 ->
             (match p2 with
              | XO p3 ->
                (match p3 with
                 | XI p4 -> (match p4 with
                             | XH -> D7 d
                             | _ -> D9 d)
                 | _ -> D9 d)
              | _ -> D9 d)
           | XO p2 ->
             (match p2 with
              | XO p3 ->
                (match p3 with
                 | XI p4 -> (match p4 with
                             | XH -> D3 d
                             | _ -> D9 d)
                 | _ -> D9 d)
              | _ -> D9 d)
           | XH -> D9 d)
        | XO p1 ->
          (match p1 with
           | XI p2 ->
             (match p2 with
              | XO p3 ->
                (match p3 with
                 | XI p4 -> (match p4 with
                             | XH -> D5 d
                             | _ -> D9 d)
                 | _ -> D9 d)
              | _ -> D9 d)
           | XO p2 ->
             (match p2 with
              | XO p3 ->
                (match p3 with
                 | XI p4 -> (match p4 with
                             | XH -> D1 d
                             | _ -> D9 d)
                 | _ -> D9 d)
              | _ -> D9 d)
           | XH -> D9 d)
        | XH -> D9 d)
     | XO p0 ->
       (match p0 with
        | XI p1 ->
          (match p1 with
           | XI p2 ->
             (match p2 with
              | XO p3 ->
                (match p3 with
                 | XI p4 -> (match p4 with
                             | XH -> D6 d
                             | _ -> D9 d)
                 | _ -> D9 d)
              | _ -> D9 d)
           | XO p2 ->
             (match p2 with
              | XO p3 ->
                (match p3 with
                 | XI p4 -> (match p4 with
                             | XH -> D2 d
                             | _ -> D9 d)
                 | _ -> D9 d)
              | _ -> D9 d)
           | XH -> D9 d)
        | XO p1 ->
          (match p1 with
           | XI p2 ->
             (match p2 with
              | XO p3 ->
                (match p3 with
                 | XI p4 -> (match p4 with
                             | XH -> D4 d
                             | _ -> D9 d)
                 | _ -> D9 d)
              | _ -> D9 d)
           | XO p2 ->
             (match p2 with
              | XI p3 ->
                (match p3 with
                 | XI p4 -> (match p4 with
                             | XH -> D8 d
                             | _ -> D9 d)
                 | _ -> D9 d)
              | XO p3 ->
                (match p3 with
                 | XI p4 -> (match p4 with
                             | XH -> D0 d
                             | _ -> D9 d)
                 | _ -> D9 d)
              | XH -> D9 d)
           | XH -> D9 d)
        | XH -> D9 d)
     | XH -> D9 d)

(** val bytes_uint : bytes -> uint option **)

let rec bytes_uint = function
| [] -> Some Nil
| b :: l' -> if is_digit b then option_map (mkD b) (bytes_uint l') else None

(** val dec_N : n -> bytes **)

let dec_N n0 =
  uint_bytes (N.to_uint n0)

(** val parse_dec_N : bytes -> n option **)

let parse_dec_N l = match l with
| [] -> None
| _ :: _ -> option_map N.of_uint (bytes_uint l)

(** val dec_Z : z -> bytes **)

let dec_Z = function
| Z0 -> dec_N N0
| Zpos p -> dec_N (Npos p)
| Zneg p -> (Npos (XI (XO (XI (XI (XO XH)))))) :: (dec_N (Npos p))

(** val parse_dec_Z : bytes -> z option **)

let parse_dec_Z l = match l with
| [] -> option_map Z.of_N (parse_dec_N l)
| n0 :: l' ->
  (match n0 with
   | N0 -> option_map Z.of_N (parse_dec_N l)
   | Npos p ->
     (match p with
      | XI p0 ->
        (match p0 with
         | XO p1 ->
           (match p1 with
            | XI p2 ->
              (match p2 with
               | XI p3 ->
                 (match p3 with
                  | XO p4 ->
                    (match p4 with
                     | XH ->
                       (match parse_dec_N l' with
                        | Some n1 ->
                          (match n1 with
                           | N0 -> None
                           | Npos p5 -> Some (Zneg p5))
                        | None -> None)
                     | _ -> option_map Z.of_N (parse_dec_N l))
                  | _ -> option_map Z.of_N (parse_dec_N l))
               | _ -> option_map Z.of_N (parse_dec_N l))
            | _ -> option_map Z.of_N (parse_dec_N l))
         | _ -> option_map Z.of_N (parse_dec_N l))
      | _ -> option_map Z.of_N (parse_dec_N l)))

(** val dec_pad : nat -> n -> bytes **)

let dec_pad k n0 =
  let d = dec_N n0 in
  app (repeat (Npos (XO (XO (XO (XO (XI XH)))))) (sub k (length d))) d

(** val rstrip0 : bytes -> bytes **)

let rec rstrip0 = function
| [] -> []
| x :: l' ->
  (match rstrip0 l' with
   | [] -> if N.eqb x (Npos (XO (XO (XO (XO (XI XH)))))) then [] else x :: []
   | n0 :: l0 -> x :: (n0 :: l0))

(** val tS_MIN_SECONDS : z **)

let tS_MIN_SECONDS =
  Zneg (XI (XO (XO (XO (XI (XI (XO (XI (XI (XI (XI (XO (XO (XI (XO (XI (XO
    (XO (XO (XO (XI (XO (XO (XI (XI (XI (XI (XO (XI (XI (XI (XO (XO (XI (XI
    XH)))))))))))))))))))))))))))))))))))

(** val tS_MAX_SECONDS : z **)

let tS_MAX_SECONDS =
  Zpos (XI (XI (XI (XI (XO (XI (XI (XO (XI (XI (XO (XO (XI (XI (XO (XO (XO
    (XO (XI (XO (XI (XI (XI (XI (XI (XI (XI (XI (XI (XI (XI (XI (XO (XI (XO
    (XI (XI XH)))))))))))))))))))))))))))))))))))))

(** val tS_MIN_MICROSECONDS : z **)

let tS_MIN_MICROSECONDS =
  Z0

(** val tS_MAX_MICROSECONDS : z **)

let tS_MAX_MICROSECONDS =
  Zpos (XI (XI (XI (XI (XI (XI (XO (XO (XO (XI (XO (XO (XO (XO (XI (XO (XI
    (XI (XI XH)))))))))))))))))))

type err =
| ETimestampOverflow
| EAttributeType
| EValue
| EAssertion
| EKey
| EOverflow
| EUnmodelled

type 'a result =
| Ok of 'a
| Err of err

(** val bind : 'a1 result -> ('a1 -> 'a2 result) -> 'a2 result **)

let bind r f =
  match r with
  | Ok a -> f a
  | Err e -> Err e

type pyval =
| VInt of z
| VBool of bool
| VOther

type timestamp = { seconds : z; microseconds : z }

(** val check_seconds : pyval -> z result **)

let check_seconds = function
| VInt z0 ->
  if (&&) (Z.leb tS_MIN_SECONDS z0) (Z.leb z0 tS_MAX_SECONDS)
  then Ok z0
  else Err ETimestampOverflow
| _ -> Err EAttributeType

(** val check_microseconds : pyval -> z result **)

let check_microseconds = function
| VInt z0 ->
  if (&&) (Z.leb tS_MIN_MICROSECONDS z0) (Z.leb z0 tS_MAX_MICROSECONDS)
  then Ok z0
  else Err EValue
| _ -> Err EAttributeType

(** val mk_timestamp : pyval -> pyval -> timestamp result **)

let mk_timestamp s us =
  bind (check_seconds s) (fun s' ->
    bind (check_microseconds us) (fun us' -> Ok { seconds = s';
      microseconds = us' }))

type tstz = { ts : timestamp; offset_bytes : bytes }

(** val pLUS : n **)

let pLUS =
  Npos (XI (XI (XO (XI (XO XH)))))

(** val mINUS : n **)

let mINUS =
  Npos (XI (XO (XI (XI (XO XH)))))

(** val dOT : n **)

let dOT =
  Npos (XO (XI (XI (XI (XO XH)))))

(** val oB_PLUS0000 : bytes **)

let oB_PLUS0000 =
  (Npos (XI (XI (XO (XI (XO XH)))))) :: ((Npos (XO (XO (XO (XO (XI
    XH)))))) :: ((Npos (XO (XO (XO (XO (XI XH)))))) :: ((Npos (XO (XO (XO (XO
    (XI XH)))))) :: ((Npos (XO (XO (XO (XO (XI XH)))))) :: []))))

(** val oB_MINUS0000 : bytes **)

let oB_MINUS0000 =
  (Npos (XI (XO (XI (XI (XO XH)))))) :: ((Npos (XO (XO (XO (XO (XI
    XH)))))) :: ((Npos (XO (XO (XO (XO (XI XH)))))) :: ((Npos (XO (XO (XO (XO
    (XI XH)))))) :: ((Npos (XO (XO (XO (XO (XI XH)))))) :: []))))

(** val iNT_MAX_STR_DIGITS : n **)

let iNT_MAX_STR_DIGITS =
  Npos (XO (XO (XI (XI (XO (XO (XI (XI (XO (XO (XO (XO XH))))))))))))

(** val py_int_digits : bytes -> z result **)

let py_int_digits l =
  match parse_dec_N l with
  | Some n0 ->
    if N.ltb iNT_MAX_STR_DIGITS (N.of_nat (length l))
    then Err EValue
    else Ok (Z.of_N n0)
  | None -> Err EUnmodelled

(** val is_nil : 'a1 list -> bool **)

let is_nil = function
| [] -> true
| _ :: _ -> false

(** val offset_modelled : bytes -> bool **)

let offset_modelled = function
| [] -> false
| c :: rest ->
  (&&) ((&&) ((||) (N.eqb c pLUS) (N.eqb c mINUS)) (negb (is_nil rest)))
    (forallb is_digit rest)

(** val parse_offset_bytes : bytes -> z result **)

let parse_offset_bytes ob =
  if negb (offset_modelled ob)
  then Err EUnmodelled
  else (match ob with
        | [] -> Err EUnmodelled
        | c :: rest ->
          let sign = if N.eqb c pLUS then Zpos XH else Zneg XH in
          let hm =
            if Nat.leb (length ob) (S (S (S O)))
            then bind (py_int_digits rest) (fun h -> Ok (h, Z0))
            else let k = sub (length rest) (S (S O)) in
                 bind (py_int_digits (firstn k rest)) (fun h ->
                   bind (py_int_digits (skipn k rest)) (fun m -> Ok (h, m)))
          in
          bind hm (fun pat ->
            let (hours, minutes) = pat in
            let offset =
              Z.mul sign
                (Z.add (Z.mul hours (Zpos (XO (XO (XI (XI (XI XH)))))))
                  minutes)
            in
            if (&&)
                 ((&&)
                   ((&&) (Z.leb Z0 minutes)
                     (Z.leb minutes (Zpos (XI (XI (XO (XI (XI XH))))))))
                   (Z.leb
                     (Z.opp (Z.pow (Zpos (XO XH)) (Zpos (XI (XI (XI XH))))))
                     offset))
                 (Z.ltb offset
                   (Z.pow (Zpos (XO XH)) (Zpos (XI (XI (XI XH))))))
            then Ok offset
            else Ok Z0))

(** val offset_minutes : tstz -> z result **)

let offset_minutes x =
  parse_offset_bytes x.offset_bytes

(** val offset_to_bytes : z -> bool -> bytes **)

let offset_to_bytes offset negative_utc =
  let negative = (||) (Z.ltb offset Z0) negative_utc in
  let a = Z.abs offset in
  let hours = Z.div a (Zpos (XO (XO (XI (XI (XI XH)))))) in
  let minutes = Z.modulo a (Zpos (XO (XO (XI (XI (XI XH)))))) in
  (if negative then mINUS else pLUS) :: (app
                                          (dec_pad (S (S O)) (Z.to_N hours))
                                          (dec_pad (S (S O)) (Z.to_N minutes)))

(** val from_numeric_offset : timestamp -> z -> bool -> tstz result **)

let from_numeric_offset t offset negative_utc =
  let x = { ts = t; offset_bytes = (offset_to_bytes offset negative_utc) } in
  bind (offset_minutes x) (fun m ->
    if Z.eqb m offset then Ok x else Err EAssertion)

type adt = { epoch_us : z; off_s : z }

(** val mILLION : z **)

let mILLION =
  Zpos (XO (XO (XO (XO (XO (XO (XI (XO (XO (XI (XO (XO (XO (XO (XI (XO (XI
    (XI (XI XH)))))))))))))))))))

(** val dT_MIN_US : z **)

let dT_MIN_US =
  Z.mul (Zneg (XO (XO (XO (XO (XO (XO (XO (XO (XI (XI (XI (XO (XI (XI (XI (XI
    (XI (XO (XO (XO (XI (XO (XO (XI (XI (XI (XI (XO (XI (XI (XI (XO (XO (XI
    (XI XH)))))))))))))))))))))))))))))))))))) mILLION

(** val dT_MAX_US : z **)

let dT_MAX_US =
  Z.add
    (Z.mul (Zpos (XI (XI (XI (XI (XI (XI (XI (XO (XI (XO (XO (XO (XO (XO (XI
      (XO (XO (XO (XI (XO (XI (XI (XI (XI (XI (XI (XI (XI (XI (XI (XI (XI (XO
      (XI (XO (XI (XI XH)))))))))))))))))))))))))))))))))))))) mILLION) (Zpos
    (XI (XI (XI (XI (XI (XI (XO (XO (XO (XI (XO (XO (XO (XO (XI (XO (XI (XI
    (XI XH))))))))))))))))))))

(** val dt_local_us : adt -> z **)

let dt_local_us d =
  Z.add d.epoch_us (Z.mul d.off_s mILLION)

(** val wall_ok : z -> bool **)

let wall_ok us =
  (&&) (Z.leb dT_MIN_US us) (Z.leb us dT_MAX_US)

(** val dt_valid : adt -> bool **)

let dt_valid d =
  (&&)
    ((&&)
      (Z.ltb (Zneg (XO (XO (XO (XO (XO (XO (XO (XI (XI (XO (XO (XO (XI (XO
        (XI (XO XH))))))))))))))))) d.off_s)
      (Z.ltb d.off_s (Zpos (XO (XO (XO (XO (XO (XO (XO (XI (XI (XO (XO (XO
        (XI (XO (XI (XO XH))))))))))))))))))) (wall_ok (dt_local_us d))

(** val astimezone_utc : adt -> adt result **)

let astimezone_utc d =
  if wall_ok d.epoch_us
  then Ok { epoch_us = d.epoch_us; off_s = Z0 }
  else Err EOverflow

(** val dt_microsecond : adt -> z **)

let dt_microsecond d =
  Z.modulo (dt_local_us d) mILLION

(** val replace_microsecond : adt -> z -> adt result **)

let replace_microsecond d us =
  if (&&) (Z.leb Z0 us) (Z.ltb us mILLION)
  then Ok { epoch_us = (Z.add (Z.sub d.epoch_us (dt_microsecond d)) us);
         off_s = d.off_s }
  else Err EValue

(** val dt_timestamp_int : adt -> z **)

let dt_timestamp_int d =
  Z.div d.epoch_us mILLION

(** val fromtimestamp : z -> z -> adt result **)

let fromtimestamp s off =
  if negb (wall_ok (Z.mul s mILLION))
  then Err EValue
  else if negb (wall_ok (Z.add (Z.mul s mILLION) (Z.mul off mILLION)))
       then Err EOverflow
       else Ok { epoch_us = (Z.mul s mILLION); off_s = off }

(** val from_datetime : adt -> tstz result **)

let from_datetime d =
  let utcoffset = d.off_s in
  bind (astimezone_utc d) (fun u ->
    let us = dt_microsecond u in
    bind (if Z.eqb us Z0 then Ok u else replace_microsecond u Z0) (fun u' ->
      let secs = dt_timestamp_int u' in
      let offset = Z.div utcoffset (Zpos (XO (XO (XI (XI (XI XH)))))) in
      bind (mk_timestamp (VInt secs) (VInt us)) (fun t ->
        from_numeric_offset t offset false)))

(** val to_datetime : tstz -> adt result **)

let to_datetime x =
  bind (offset_minutes x) (fun m ->
    let tz_off =
      if (&&)
           (Z.ltb (Zneg (XO (XO (XO (XO (XO (XI (XO (XI (XI (XO XH)))))))))))
             m)
           (Z.ltb m (Zpos (XO (XO (XO (XO (XO (XI (XO (XI (XI (XO
             XH))))))))))))
      then Z.mul m (Zpos (XO (XO (XI (XI (XI XH))))))
      else Z0
    in
    bind (fromtimestamp x.ts.seconds tz_off) (fun d ->
      replace_microsecond d x.ts.microseconds))

(** val from_iso8601_parsed : adt -> bool -> tstz result **)

let from_iso8601_parsed d tzname_minus0 =
  bind (from_datetime d) (fun x ->
    if tzname_minus0
    then if beqb x.offset_bytes oB_PLUS0000
         then Ok { ts = x.ts; offset_bytes = oB_MINUS0000 }
         else Err EAssertion
    else Ok x)

type ts_repr =
| TsDict of pyval option * pyval option
| TsInt of pyval
| TsOther

type time_repr =
| TRDictNew of ts_repr option * bytes option
| TRDictOld of ts_repr option * z option * bool option
| TRDatetime of adt
| TRNaive
| TRInt of pyval
| TROther

(** val default : pyval -> pyval option -> pyval **)

let default d = function
| Some v -> v
| None -> d

(** val timestamp_of_repr : ts_repr option -> timestamp result **)

let timestamp_of_repr = function
| Some t0 ->
  (match t0 with
   | TsDict (s, us) ->
     mk_timestamp (default (VInt Z0) s) (default (VInt Z0) us)
   | TsInt v -> mk_timestamp v (VInt Z0)
   | TsOther -> Err EValue)
| None -> Err EKey

(** val from_dict : time_repr -> tstz result **)

let from_dict = function
| TRDictNew (t, ob) ->
  bind (timestamp_of_repr t) (fun t' ->
    match ob with
    | Some b -> Ok { ts = t'; offset_bytes = b }
    | None -> Err EAttributeType)
| TRDictOld (t, offset, neg) ->
  bind (timestamp_of_repr t) (fun t' ->
    match offset with
    | Some off ->
      from_numeric_offset t' off (match neg with
                                  | Some b -> b
                                  | None -> false)
    | None -> Err EKey)
| TRDatetime d -> from_datetime d
| TRInt v ->
  bind (mk_timestamp v (VInt Z0)) (fun t' -> Ok { ts = t'; offset_bytes =
    oB_PLUS0000 })
| _ -> Err EValue

(** val fmt_06d : z -> bytes **)

let fmt_06d z0 = match z0 with
| Zneg p -> mINUS :: (dec_pad (S (S (S (S (S O))))) (Npos p))
| _ -> dec_pad (S (S (S (S (S (S O)))))) (Z.to_N z0)

(** val format_date : timestamp -> bytes **)

let format_date t =
  if Z.eqb t.microseconds Z0
  then dec_Z t.seconds
  else rstrip0
         (app (dec_Z t.seconds) (app (dOT :: []) (fmt_06d t.microseconds)))

(** val author_date_part : tstz -> bytes **)

let author_date_part x =
  app (sP :: []) (app (format_date x.ts) (app (sP :: []) x.offset_bytes))

(** val parse_date : bytes -> (z * z) option **)

let parse_date l =
  let (a, o) = cut dOT l in
  (match o with
   | Some f ->
     (match parse_dec_Z a with
      | Some s ->
        (match parse_dec_N f with
         | Some n0 ->
           if Nat.leb (length f) (S (S (S (S (S (S O))))))
           then Some (s,
                  (Z.mul (Z.of_N n0)
                    (Z.pow (Zpos (XO (XI (XO XH))))
                      (Z.of_nat (sub (S (S (S (S (S (S O)))))) (length f))))))
           else None
         | None -> None)
      | None -> None)
   | None -> option_map (fun s -> (s, Z0)) (parse_dec_Z a))

(** val z_range_pos : positive -> z -> z list **)

let rec z_range_pos p lo =
  match p with
  | XI q ->
    app (z_range_pos q lo)
      (app (z_range_pos q (Z.add lo (Zpos q)))
        ((Z.add (Z.add lo (Zpos q)) (Zpos q)) :: []))
  | XO q -> app (z_range_pos q lo) (z_range_pos q (Z.add lo (Zpos q)))
  | XH -> lo :: []

(** val z_range : z -> positive -> z list **)

let z_range lo n0 =
  z_range_pos n0 lo
