
(** val negb : bool -> bool **)

let negb = function
| true -> false
| false -> true

type nat =
| O
| S of nat

(** val fst : ('a1 * 'a2) -> 'a1 **)

let fst = function
| (x, _) -> x

(** val snd : ('a1 * 'a2) -> 'a2 **)

let snd = function
| (_, y) -> y

(** val length : 'a1 list -> nat **)

let rec length = function
| [] -> O
| _ :: l' -> S (length l')

(** val app : 'a1 list -> 'a1 list -> 'a1 list **)

let rec app l m =
  match l with
  | [] -> m
  | a :: l1 -> a :: (app l1 m)

type comparison =
| Eq
| Lt
| Gt

(** val pred : nat -> nat **)

let pred n0 = match n0 with
| O -> n0
| S u -> u

(** val add : nat -> nat -> nat **)

let rec add n0 m =
  match n0 with
  | O -> m
  | S p -> S (add p m)

(** val sub : nat -> nat -> nat **)

let rec sub n0 m =
  match n0 with
  | O -> n0
  | S k -> (match m with
            | O -> n0
            | S l -> sub k l)

type positive =
| XI of positive
| XO of positive
| XH

type n =
| N0
| Npos of positive

type z =
| Z0
| Zpos of positive
| Zneg of positive

module Nat =
 struct
  (** val sub : nat -> nat -> nat **)

  let rec sub n0 m =
    match n0 with
    | O -> n0
    | S k -> (match m with
              | O -> n0
              | S l -> sub k l)

  (** val divmod : nat -> nat -> nat -> nat -> nat * nat **)

  let rec divmod x y q u =
    match x with
    | O -> (q, u)
    | S x' ->
      (match u with
       | O -> divmod x' y (S q) y
       | S u' -> divmod x' y q u')

  (** val modulo : nat -> nat -> nat **)

  let modulo x = function
  | O -> x
  | S y' -> sub y' (snd (divmod x y' O y'))
 end

module Pos =
 struct
  (** val succ : positive -> positive **)

  let rec succ = function
  | XI p -> XO (succ p)
  | XO p -> XI p
  | XH -> XO XH

  (** val compare_cont : comparison -> positive -> positive -> comparison **)

  let rec compare_cont r x y =
    match x with
    | XI p ->
      (match y with
       | XI q -> compare_cont r p q
       | XO q -> compare_cont Gt p q
       | XH -> Gt)
    | XO p ->
      (match y with
       | XI q -> compare_cont Lt p q
       | XO q -> compare_cont r p q
       | XH -> Gt)
    | XH -> (match y with
             | XH -> r
             | _ -> Lt)

  (** val compare : positive -> positive -> comparison **)

  let compare =
    compare_cont Eq

  (** val eqb : positive -> positive -> bool **)

  let rec eqb p q =
    match p with
    | XI p0 -> (match q with
                | XI q0 -> eqb p0 q0
                | _ -> false)
    | XO p0 -> (match q with
                | XO q0 -> eqb p0 q0
                | _ -> false)
    | XH -> (match q with
             | XH -> true
             | _ -> false)

  (** val iter_op : ('a1 -> 'a1 -> 'a1) -> positive -> 'a1 -> 'a1 **)

  let rec iter_op op p a =
    match p with
    | XI p0 -> op a (iter_op op p0 (op a a))
    | XO p0 -> iter_op op p0 (op a a)
    | XH -> a

  (** val to_nat : positive -> nat **)

  let to_nat x =
    iter_op add x (S O)

  (** val of_succ_nat : nat -> positive **)

  let rec of_succ_nat = function
  | O -> XH
  | S x -> succ (of_succ_nat x)
 end

module N =
 struct
  (** val compare : n -> n -> comparison **)

  let compare n0 m =
    match n0 with
    | N0 -> (match m with
             | N0 -> Eq
             | Npos _ -> Lt)
    | Npos n' -> (match m with
                  | N0 -> Gt
                  | Npos m' -> Pos.compare n' m')

  (** val eqb : n -> n -> bool **)

  let eqb n0 m =
    match n0 with
    | N0 -> (match m with
             | N0 -> true
             | Npos _ -> false)
    | Npos p -> (match m with
                 | N0 -> false
                 | Npos q -> Pos.eqb p q)

  (** val leb : n -> n -> bool **)

  let leb x y =
    match compare x y with
    | Gt -> false
    | _ -> true

  (** val to_nat : n -> nat **)

  let to_nat = function
  | N0 -> O
  | Npos p -> Pos.to_nat p

  (** val of_nat : nat -> n **)

  let of_nat = function
  | O -> N0
  | S n' -> Npos (Pos.of_succ_nat n')
 end

module Z =
 struct
  (** val of_N : n -> z **)

  let of_N = function
  | N0 -> Z0
  | Npos p -> Zpos p
 end

(** val nth : nat -> 'a1 list -> 'a1 -> 'a1 **)

let rec nth n0 l default =
  match n0 with
  | O -> (match l with
          | [] -> default
          | x :: _ -> x)
  | S m -> (match l with
            | [] -> default
            | _ :: t -> nth m t default)

(** val rev : 'a1 list -> 'a1 list **)

let rec rev = function
| [] -> []
| x :: l' -> app (rev l') (x :: [])

(** val map : ('a1 -> 'a2) -> 'a1 list -> 'a2 list **)

let rec map f = function
| [] -> []
| a :: t -> (f a) :: (map f t)

(** val fold_left : ('a1 -> 'a2 -> 'a1) -> 'a2 list -> 'a1 -> 'a1 **)

let rec fold_left f l a0 =
  match l with
  | [] -> a0
  | b :: t -> fold_left f t (f a0 b)

(** val existsb : ('a1 -> bool) -> 'a1 list -> bool **)

let rec existsb f = function
| [] -> false
| a :: l0 -> (||) (f a) (existsb f l0)

(** val forallb : ('a1 -> bool) -> 'a1 list -> bool **)

let rec forallb f = function
| [] -> true
| a :: l0 -> (&&) (f a) (forallb f l0)

(** val filter : ('a1 -> bool) -> 'a1 list -> 'a1 list **)

let rec filter f = function
| [] -> []
| x :: l0 -> if f x then x :: (filter f l0) else filter f l0

(** val find : ('a1 -> bool) -> 'a1 list -> 'a1 option **)

let rec find f = function
| [] -> None
| x :: tl -> if f x then Some x else find f tl

(** val firstn : nat -> 'a1 list -> 'a1 list **)

let rec firstn n0 l =
  match n0 with
  | O -> []
  | S n1 -> (match l with
             | [] -> []
             | a :: l0 -> a :: (firstn n1 l0))

(** val skipn : nat -> 'a1 list -> 'a1 list **)

let rec skipn n0 l =
  match n0 with
  | O -> l
  | S n1 -> (match l with
             | [] -> []
             | _ :: l0 -> skipn n1 l0)

(** val memN : n -> n list -> bool **)

let memN x l =
  existsb (N.eqb x) l

(** val set_add : n -> n list -> n list **)

let set_add x l =
  if memN x l then l else app l (x :: [])

(** val set_union : n list -> n list -> n list **)

let set_union l m =
  fold_left (fun acc x -> set_add x acc) m l

(** val set_remove : n -> n list -> n list **)

let set_remove x l =
  filter (fun y -> negb (N.eqb x y)) l

(** val set_inter : n list -> n list -> n list **)

let set_inter l m =
  filter (fun y -> memN y m) l

(** val set_diff : n list -> n list -> n list **)

let set_diff l m =
  filter (fun y -> negb (memN y m)) l

(** val nodupb : n list -> bool **)

let rec nodupb = function
| [] -> true
| x :: l' -> (&&) (negb (memN x l')) (nodupb l')

(** val subsetb : n list -> n list -> bool **)

let subsetb l m =
  forallb (fun x -> memN x m) l

type dirent = n * n list

(** val children_of : dirent list -> n -> n list **)

let children_of dirs d =
  match find (fun p -> N.eqb d (fst p)) (rev dirs) with
  | Some p -> snd p
  | None -> []

(** val parents_of : dirent list -> n -> n list **)

let parents_of dirs c =
  map fst (filter (fun p -> memN c (snd p)) dirs)

(** val dir_ids : dirent list -> n list **)

let dir_ids dirs =
  map fst dirs

(** val objects : n list -> n list -> dirent list -> n list **)

let objects contents skipped dirs =
  app contents (app skipped (dir_ids dirs))

type state = { undecided : n list; undecided_dirs : n list; known : n list;
               unknown : n list; events : (n * bool) list;
               queries : (n * n list) list; clock : nat }

(** val init_state : n list -> n list -> dirent list -> state **)

let init_state contents skipped dirs =
  let u1 = set_union [] (app contents skipped) in
  let u2 = set_union u1 (dir_ids dirs) in
  let ud = set_union [] (dir_ids dirs) in
  { undecided = (set_union u2 ud); undecided_dirs = ud; known = []; unknown =
  []; events = []; queries = []; clock = O }

type target =
| TKnown
| TUnknown

type pick_oracle = nat -> n list -> nat

(** val mark_step : dirent list -> target -> n -> state -> state * n list **)

let mark_step dirs tg cur st =
  let known' =
    match tg with
    | TKnown -> set_add cur st.known
    | TUnknown -> st.known
  in
  let unknown' =
    match tg with
    | TKnown -> st.unknown
    | TUnknown -> set_add cur st.unknown
  in
  let new0 = memN cur st.undecided in
  let und' = set_remove cur st.undecided in
  let ud' = set_remove cur st.undecided_dirs in
  let mapping =
    match tg with
    | TKnown -> children_of dirs cur
    | TUnknown -> parents_of dirs cur
  in
  let next = set_inter mapping und' in
  let events' =
    if new0 then app st.events ((cur, (memN cur known')) :: []) else st.events
  in
  ({ undecided = und'; undecided_dirs = ud'; known = known'; unknown =
  unknown'; events = events'; queries = st.queries; clock = (S st.clock) },
  next)

(** val mark :
    nat -> pick_oracle -> dirent list -> target -> n list -> state -> state
    option **)

let rec mark fuel pick dirs tg to_process st =
  match to_process with
  | [] -> Some st
  | x0 :: _ ->
    (match fuel with
     | O -> None
     | S fuel' ->
       let cur =
         nth (Nat.modulo (pick st.clock to_process) (length to_process))
           to_process x0
       in
       let (st', next) = mark_step dirs tg cur st in
       mark fuel' pick dirs tg (set_union (set_remove cur to_process) next)
         st')

(** val mark_fuel : n list -> state -> nat **)

let mark_fuel to_process st =
  S (add (length to_process) (length st.undecided))

(** val log_query : n -> n list -> state -> state **)

let log_query kind sample st =
  { undecided = st.undecided; undecided_dirs = st.undecided_dirs; known =
    st.known; unknown = st.unknown; events = st.events; queries =
    (app st.queries ((kind, sample) :: [])); clock = st.clock }

(** val query_one :
    pick_oracle -> dirent list -> (n -> bool) -> n -> n list -> state ->
    state option **)

let query_one pick dirs missing kind sample st =
  match sample with
  | [] -> Some st
  | _ :: _ ->
    let st0 = log_query kind sample st in
    let unknown_ = filter missing sample in
    let known_ = set_diff sample unknown_ in
    (match mark (mark_fuel known_ st0) pick dirs TKnown known_ st0 with
     | Some st1 ->
       mark (mark_fuel unknown_ st1) pick dirs TUnknown unknown_ st1
     | None -> None)

(** val do_query :
    pick_oracle -> dirent list -> (n -> bool) -> n list -> n list -> n list
    -> state -> state option **)

let do_query pick dirs missing sc ss sd st =
  match query_one pick dirs missing N0 sc st with
  | Some st1 ->
    (match query_one pick dirs missing (Npos XH) ss st1 with
     | Some st2 -> query_one pick dirs missing (Npos (XO XH)) sd st2
     | None -> None)
  | None -> None

type sampler_oracle = nat -> n list -> n list

(** val sample_contract : n -> n list -> n list -> bool **)

let sample_contract sample_size population sample =
  (&&) ((&&) (nodupb sample) (subsetb sample population))
    (N.eqb (N.of_nat (length sample)) sample_size)

type sample_result =
| SampleOk of n list * n list * n list
| SampleKeyError
| SampleBad

(** val get_sample :
    n -> sampler_oracle -> n list -> n list -> nat -> state -> sample_result **)

let get_sample sample_size sampler contents skipped round0 st =
  match st.undecided_dirs with
  | [] ->
    if forallb (fun x -> (||) (memN x contents) (memN x skipped)) st.undecided
    then SampleOk ((filter (fun x -> negb (memN x skipped)) st.undecided),
           (filter (fun x -> memN x skipped) st.undecided), [])
    else SampleKeyError
  | _ :: _ ->
    if N.leb (N.of_nat (length st.undecided_dirs)) sample_size
    then SampleOk ([], [], st.undecided_dirs)
    else let s = sampler round0 st.undecided_dirs in
         if sample_contract sample_size st.undecided_dirs s
         then SampleOk ([], [], s)
         else SampleBad

type round_result =
| RoundOk of state
| RoundOutOfFuel
| RoundKeyError
| RoundBadSample

(** val round :
    n -> sampler_oracle -> pick_oracle -> (n -> bool) -> n list -> n list ->
    dirent list -> nat -> state -> round_result **)

let round sample_size sampler pick missing contents skipped dirs r st =
  match get_sample sample_size sampler contents skipped r st with
  | SampleOk (sc, ss, sd) ->
    (match do_query pick dirs missing sc ss sd st with
     | Some st' -> RoundOk st'
     | None -> RoundOutOfFuel)
  | SampleKeyError -> RoundKeyError
  | SampleBad -> RoundBadSample

(** val loop :
    nat -> n -> sampler_oracle -> pick_oracle -> (n -> bool) -> n list -> n
    list -> dirent list -> nat -> state -> round_result **)

let rec loop fuel sample_size sampler pick missing contents skipped dirs r st =
  match st.undecided with
  | [] -> RoundOk st
  | _ :: _ ->
    (match fuel with
     | O -> RoundOutOfFuel
     | S fuel' ->
       (match round sample_size sampler pick missing contents skipped dirs r
                st with
        | RoundOk st' ->
          loop fuel' sample_size sampler pick missing contents skipped dirs
            (S r) st'
        | x -> x))

type disc_result =
| DiscOk of n list * n list * n list * state
| DiscOutOfFuel
| DiscKeyError
| DiscBadSample

(** val filter_known_objects :
    n -> sampler_oracle -> pick_oracle -> (n -> bool) -> n list -> n list ->
    dirent list -> disc_result **)

let filter_known_objects sample_size sampler pick missing contents skipped dirs =
  let st0 = init_state contents skipped dirs in
  (match loop (S (length (objects contents skipped dirs))) sample_size
           sampler pick missing contents skipped dirs O st0 with
   | RoundOk st ->
     DiscOk ((filter (fun c -> memN c st.unknown) contents),
       (filter (fun c -> memN c st.unknown) skipped),
       (filter (fun c -> memN c st.unknown) (dir_ids dirs)), st)
   | RoundOutOfFuel -> DiscOutOfFuel
   | RoundKeyError -> DiscKeyError
   | RoundBadSample -> DiscBadSample)

(** val pick_fifo : pick_oracle **)

let pick_fifo _ _ =
  O

(** val pick_lifo : pick_oracle **)

let pick_lifo _ tp =
  pred (length tp)

(** val sampler_first : n -> sampler_oracle **)

let sampler_first sample_size _ ud =
  firstn (N.to_nat sample_size) ud

(** val sampler_last : n -> sampler_oracle **)

let sampler_last sample_size _ ud =
  skipn (sub (length ud) (N.to_nat sample_size)) ud

(** val sampler_replay : n list list -> sampler_oracle **)

let sampler_replay samples r _ =
  nth r samples []

(** val closedb : (n -> bool) -> n list -> n list -> dirent list -> bool **)

let closedb missing contents skipped dirs =
  forallb (fun p ->
    (||) (missing (fst p))
      (forallb (fun c ->
        (||) (negb (memN c (objects contents skipped dirs)))
          (negb (missing c))) (snd p))) dirs
