
val negb : bool -> bool

type nat =
| O
| S of nat

val fst : ('a1 * 'a2) -> 'a1

val snd : ('a1 * 'a2) -> 'a2

val length : 'a1 list -> nat

val app : 'a1 list -> 'a1 list -> 'a1 list

type comparison =
| Eq
| Lt
| Gt

val pred : nat -> nat

val add : nat -> nat -> nat

val sub : nat -> nat -> nat

type positive =
| XI of positive
| XO of positive
| XH

type n =
| N0
| Npos of positive

type z =
| Z0
| Zpos of positive
| Zneg of positive

module Nat :
 sig
  val sub : nat -> nat -> nat

  val divmod : nat -> nat -> nat -> nat -> nat * nat

  val modulo : nat -> nat -> nat
 end

module Pos :
 sig
  val succ : positive -> positive

  val compare_cont : comparison -> positive -> positive -> comparison

  val compare : positive -> positive -> comparison

  val eqb : positive -> positive -> bool

  val iter_op : ('a1 -> 'a1 -> 'a1) -> positive -> 'a1 -> 'a1

  val to_nat : positive -> nat

  val of_succ_nat : nat -> positive
 end

module N :
 sig
  val compare : n -> n -> comparison

  val eqb : n -> n -> bool

  val leb : n -> n -> bool

  val to_nat : n -> nat

  val of_nat : nat -> n
 end

module Z :
 sig
  val of_N : n -> z
 end

val nth : nat -> 'a1 list -> 'a1 -> 'a1

val rev : 'a1 list -> 'a1 list

val map : ('a1 -> 'a2) -> 'a1 list -> 'a2 list

val fold_left : ('a1 -> 'a2 -> 'a1) -> 'a2 list -> 'a1 -> 'a1

val existsb : ('a1 -> bool) -> 'a1 list -> bool

val forallb : ('a1 -> bool) -> 'a1 list -> bool

val filter : ('a1 -> bool) -> 'a1 list -> 'a1 list

val find : ('a1 -> bool) -> 'a1 list -> 'a1 option

val firstn : nat -> 'a1 list -> 'a1 list

val skipn : nat -> 'a1 list -> 'a1 list

val memN : n -> n list -> bool

val set_add : n -> n list -> n list

val set_union : n list -> n list -> n list

val set_remove : n -> n list -> n list

val set_inter : n list -> n list -> n list

val set_diff : n list -> n list -> n list

val nodupb : n list -> bool

val subsetb : n list -> n list -> bool

type dirent = n * n list

val children_of : dirent list -> n -> n list

val parents_of : dirent list -> n -> n list

val dir_ids : dirent list -> n list

val objects : n list -> n list -> dirent list -> n list

type state = { undecided : n list; undecided_dirs : n list; known : n list;
               unknown : n list; events : (n * bool) list;
               queries : (n * n list) list; clock : nat }

val init_state : n list -> n list -> dirent list -> state

type target =
| TKnown
| TUnknown

type pick_oracle = nat -> n list -> nat

val mark_step : dirent list -> target -> n -> state -> state * n list

val mark :
  nat -> pick_oracle -> dirent list -> target -> n list -> state -> state
  option

val mark_fuel : n list -> state -> nat

val log_query : n -> n list -> state -> state

val query_one :
  pick_oracle -> dirent list -> (n -> bool) -> n -> n list -> state -> state
  option

val do_query :
  pick_oracle -> dirent list -> (n -> bool) -> n list -> n list -> n list ->
  state -> state option

type sampler_oracle = nat -> n list -> n list

val sample_contract : n -> n list -> n list -> bool

type sample_result =
| SampleOk of n list * n list * n list
| SampleKeyError
| SampleBad

val get_sample :
  n -> sampler_oracle -> n list -> n list -> nat -> state -> sample_result

type round_result =
| RoundOk of state
| RoundOutOfFuel
| RoundKeyError
| RoundBadSample

val round :
  n -> sampler_oracle -> pick_oracle -> (n -> bool) -> n list -> n list ->
  dirent list -> nat -> state -> round_result

val loop :
  nat -> n -> sampler_oracle -> pick_oracle -> (n -> bool) -> n list -> n
  list -> dirent list -> nat -> state -> round_result

type disc_result =
| DiscOk of n list * n list * n list * state
| DiscOutOfFuel
| DiscKeyError
| DiscBadSample

val filter_known_objects :
  n -> sampler_oracle -> pick_oracle -> (n -> bool) -> n list -> n list ->
  dirent list -> disc_result

val pick_fifo : pick_oracle

val pick_lifo : pick_oracle

val sampler_first : n -> sampler_oracle

val sampler_last : n -> sampler_oracle

val sampler_replay : n list list -> sampler_oracle

val closedb : (n -> bool) -> n list -> n list -> dirent list -> bool
