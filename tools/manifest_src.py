HOOK_COMMITS = []
NOTES = ("Every check: regenerate coq/Generated.v from /repo, rebuild the proof cone of coq/Props/<id>.v with a full .vo build, "
         "parse Print Assumptions (must be closed), grep for forbidden commands, extract the model to OCaml and compare it with /repo's code "
         "on generated cases; see DESIGN.md.")
NOT_APPLICABLE = {}
COMMON_NOTE = ("Trusted: Coq kernel; the hand-written model is tied to the code only by the regenerated tables and by differential "
               "correspondence on generated cases (not on all inputs); extraction via ExtrOcamlBasic only; the OCaml driver and Python harness. ")
CHECKS = {
 "C20": {
  "text": "Theorem C20_topo proves, for every log with distinct ids that is parent-closed and acyclic, in any order, and for every choice of the next ready revision, that the model of toposort() emits a permutation of the log with every parent before its children and never runs out of fuel; the implementation is tied to the model by trace inclusion (its emission order is replayed step by step in the extracted model) and by the proved checker is_topo_order run on its output.",
  "design_ref": "DESIGN.md section 5, C20",
  "note": COMMON_NOTE + "Python dict/defaultdict/deque semantics are modelled, not verified.",
  "technique": "Coq proof by loop invariant over a nondeterministic Kahn model + extracted-model trace inclusion against the implementation",
 },
 "C02": {
  "text": "Theorems over the Gallina model of directory_git_object and the Directory validators, for ALL entry lists: order-freedom of the manifest under any permutation (valid sets), equality with git's tree object built by an independently transcribed base_name_compare ordering, strict git-order of the emitted entries, octal mode round trip / no leading zero / the five DentryPerms table, an independent decoder recovering exactly the (mode,name,target) triples, manifest injectivity, and independence of the id from everything but the entry set, for every hash function. The implementation is tied to the model on every run by byte-exact comparison of manifests, ids and validator verdicts on adversarial generated entry sets, with the independent encoder and decoder (extracted from Coq) applied to the implementation's own manifests.",
  "design_ref": "DESIGN.md section 5, C02",
  "note": COMMON_NOTE + "Python bytes ordering / sorted / oct are modelled (lib/Order.v, StableSort.v, Hex.v). Agreement of the spec-level tree encoding with real git is validated with `git mktree` in the thorough tier (validation, not proof). SHA-1 itself is uninterpreted in the theorems.",
  "technique": "Coq proof (sorting/permutation, lexicographic order, decode-encode) over a hand-written model + extracted-model differential correspondence + regenerated tables",
 },
 "C17": {
  "text": "Theorems C17_exact, C17_progress and C17_callbacks prove, on a literal model of BaseDiscoveryGraph / RandomDirSamplingDiscoveryGraph / filter_known_objects, that for every set of contents, skipped contents and directories with distinct ids (entries may point outside the set; acyclicity is not even needed), every archive closed under 'known directory => known entries', every SAMPLE_SIZE > 0, every sampling sequence random.sample can produce and every set.pop order, the loop terminates (each round strictly shrinks undecided), the three returned lists are exactly the inputs filtered by 'missing' in input order, and the callbacks are a permutation of (object, not missing) with each object exactly once. C17_exact_any_sampler gives the same for an arbitrary sampler or pinpoints the inadmissible draw. The implementation is tied to the model by replaying its own draws in the extracted model (results, callback multiset, archive queries) on generated DAGs with patched SAMPLE_SIZE / random.sample and varied PYTHONHASHSEED, and the property is evaluated directly on the implementation.",
  "design_ref": "DESIGN.md section 5, C17",
  "note": COMMON_NOTE + "Python set/dict semantics, set.pop() and random.sample are modelled as duplicate-free lists with universally quantified pick/sampler oracles; the three archive methods are one function on ids (ids distinct); 0 < SAMPLE_SIZE is checked on the source value at run time.",
  "technique": "Coq proof by state invariant + decreasing measure over a nondeterministic (oracle-driven) model of the discovery loop; extracted-model trace inclusion (sampler replay) against the implementation",
 },
 "C05": {
  "text": "Theorems over the Gallina model of snapshot_git_object for ALL branch maps: manifest independent of insertion order, names emitted in strictly increasing byte order, an independent decoder recovering one (kind, name, target) record per branch for NUL-free names and targets of arbitrary length/content (length prefix), records determine branches hence manifest injectivity, the unresolved list is exactly the aliases to a missing branch or to themselves, raise iff non-empty and not ignored (carrying that list), id computed with ignore_unresolved=True. Tied to the code by byte-exact comparison of manifests, ids, raise/not and the ValueError's alias list on generated maps, plus the independent decoder applied to the implementation's own manifests and a spec-level encoder written from the statement.",
  "design_ref": "DESIGN.md section 5, C05",
  "note": COMMON_NOTE + "Python sorted() on (name, branch) tuples, '%d' and dict semantics are modelled. SHA-1 is uninterpreted in the theorems. The kind words come from the regenerated SnapshotTargetType table.",
  "technique": "Coq proof (sorting/permutation, length-prefixed decode-encode) over a hand-written model + extracted-model differential correspondence + regenerated tables",
 },
 "C03": {
  "text": "Theorems over the Gallina model of revision_git_object / Revision (validators, legacy extra-header migration): an independent positional commit parser recovers tree, parents, author and committer lines, ordered extra headers with their multi-line values and the message from the manifest, for ALL revisions whose extra-header keys are well-formed (any parents, every presence combination, arbitrary value/name/offset/message bytes); manifest injectivity on those fields; irrelevance of type/synthetic/name/email/other metadata; attribute vs legacy-metadata headers give the same manifest; the validators' presence matrix. The full-strength parse statement (arbitrary keys) is REFUTED in Coq (C03_parse_full_refuted) and recorded as a known finding with class 'extra-header key not well-formed'. Tied to the code by byte-exact manifests/ids on generated revisions and by the extracted parser applied to the implementation's manifests.",
  "design_ref": "DESIGN.md section 5, C03",
  "note": COMMON_NOTE + "Date text and offset bytes come from model/Time.v (C16). SHA-1 is uninterpreted. Agreement with real git/dulwich on the expressible subset is validation only. Known finding: exotic extra-header keys (known_findings.jsonl).",
  "technique": "Coq proof (header-list encode/parse inverse, positional commit parser) over a hand-written model + extracted-model differential correspondence",
 },
 "C04": {
  "text": "Theorems over the Gallina model of release_git_object / Release: an independent tag parser recovers exactly object, type, tag name, tagger line and message for ALL releases with a target (five target types, author/date presence, arbitrary name/message/fullname/offset bytes), the type map is injective (target type recoverable), manifests are injective on the tag fields, synthetic/metadata/name/email are irrelevant, the validator accepts exactly (date => author), a missing target is a TypeError. Tied to the code by byte-exact manifests/ids on generated releases, the extracted parser applied to the implementation's manifests, and the regenerated target_type_to_git table.",
  "design_ref": "DESIGN.md section 5, C04",
  "note": COMMON_NOTE + "Date text and offset bytes come from model/Time.v (C16). SHA-1 is uninterpreted. Agreement with real git/dulwich is validation only.",
  "technique": "Coq proof (header-list encode/parse inverse) over a hand-written model + extracted-model differential correspondence + regenerated tables",
 },
}
