HOOK_COMMITS = []
NOTES = ("Every check: regenerate coq/Generated.v from /repo, rebuild the proof cone of coq/Props/<id>.v with a full .vo build, "
         "parse Print Assumptions (must be closed), grep for forbidden commands, extract the model to OCaml and compare it with /repo's code "
         "on generated cases; see DESIGN.md.")
NOT_APPLICABLE = {}
COMMON_NOTE = ("Trusted: Coq kernel; the hand-written model is tied to the code only by the regenerated tables and by differential "
               "correspondence on generated cases (not on all inputs); extraction via ExtrOcamlBasic only; the OCaml driver and Python harness. ")
CHECKS = {
 "C20": {
  "text": "Theorem C20_topo proves, for every log with distinct ids that is parent-closed and acyclic, in any order, and for every choice of the next ready revision, that the model of toposort() emits a permutation of the log with every parent before its children and never runs out of fuel; the implementation is tied to the model by trace inclusion (its emission order is replayed step by step in the extracted model) and by the proved checker is_topo_order run on its output.",
  "design_ref": "DESIGN.md section 5, C20",
  "note": COMMON_NOTE + "Python dict/defaultdict/deque semantics are modelled, not verified.",
  "technique": "Coq proof by loop invariant over a nondeterministic Kahn model + extracted-model trace inclusion against the implementation",
 },
}
