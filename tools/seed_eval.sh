#!/bin/bash
# usage: tools/seed_eval.sh <seed-name e.g. C04a> <property id> <dir with patch.diff demo.py meta.json>
# Confirms a seeded change in a fresh scratch worktree (tests pass with it, demo fails with it and passes
# without it), stores it under /verif/seeded/<name>/ and runs the property's quick check against it.
set -u
name=$1; pid=$2; src=$3
dst=/verif/seeded/$name
mkdir -p $dst
cp $src/patch.diff $src/demo.py $dst/ 2>/dev/null
cp $src/meta.json $dst/meta.agent.json 2>/dev/null
wt=/tmp/w/eval_$name
git -C /repo worktree remove --force $wt >/dev/null 2>&1
git -C /repo worktree add -q $wt HEAD || exit 2
cd $wt
PYTHONPATH=$wt /venv/bin/python $dst/demo.py >$dst/demo_without.log 2>&1; d0=$?
git apply $dst/patch.diff || { echo "patch does not apply"; exit 2; }
PYTHONPATH=$wt /venv/bin/python -m pytest -q -p no:cacheprovider --timeout=900 >$dst/tests_with.log 2>&1; t1=$?
PYTHONPATH=$wt /venv/bin/python $dst/demo.py >$dst/demo_with.log 2>&1; d1=$?
cd /verif
VERIF_REPO=$wt timeout 3000 ./check $pid --tier quick >$dst/check.log 2>&1; c1=$?
viol=$(grep -c '^VIOLATION' $dst/check.log)
line=$(grep '^VIOLATION' $dst/check.log | head -1)
rp=$(echo "$line" | sed -n 's/.*replay=\([^ ]*\).*/\1/p')
[ -n "$rp" ] && [ -f "$rp" ] && cp "$rp" $dst/replay.json
git -C /repo worktree remove --force $wt
echo "$name: demo_without=$d0 tests_with=$t1 ($(tail -1 $dst/tests_with.log)) demo_with=$d1 check_exit=$c1 $line"
python3 - "$name" "$pid" "$d0" "$t1" "$d1" "$c1" "$line" <<'PY'
import json, sys, os
name, pid, d0, t1, d1, c1, line = sys.argv[1:8]
dst = "/verif/seeded/" + name
agent = {}
try:
    agent = json.load(open(dst + "/meta.agent.json"))
except Exception:
    pass
kind = None
try:
    kind = json.load(open(dst + "/replay.json")).get("kind")
except Exception:
    pass
meta = {"property": pid, "summary": agent.get("summary"), "needs": agent.get("needs"), "files": agent.get("files"),
        "confirmed": {"demo_exit_without_change": int(d0), "test_suite_exit_with_change": int(t1), "demo_exit_with_change": int(d1)},
        "ran": ["fresh worktree of /repo HEAD under /tmp/w; demo.py without the change; git apply patch.diff; full test suite; demo.py with the change; VERIF_REPO=<worktree> ./check %s --tier quick; worktree removed" % pid],
        "check": {"exit": int(c1), "violation_line": line, "replay_kind": kind},
        "detected": int(c1) == 1 and line.startswith("VIOLATION")}
json.dump(meta, open(dst + "/meta.json", "w"), indent=1)
PY
