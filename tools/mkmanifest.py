#!/usr/bin/env python3
"""Writes MANIFEST.json from tools/manifest_src.py (kept as Python so that long texts stay readable)."""
import json, os, sys
sys.path.insert(0, os.path.dirname(os.path.abspath(__file__)))
import manifest_src as S
checks = []
for pid, c in sorted(S.CHECKS.items()):
    checks.append({
        "property_id": pid,
        "quick_cmd": f"./check {pid} --tier quick",
        "thorough_cmd": f"./check {pid} --tier thorough",
        "evidence_file": f"/verif/evidence/{pid}.json",
        "replay_cmd_template": f"./check {pid} --replay {{path}}",
        "engine": "coq-proof+correspondence",
        "level_claimed": {"category": "proof", "text": c["text"], "design_ref": c["design_ref"]},
        "level_note": c["note"],
        "technique": c["technique"],
    })
props = [json.loads(l)["id"] for l in open(os.path.join(os.path.dirname(__file__), "..", "properties.jsonl"))]
na = [{"property_id": p, "reason": S.NOT_APPLICABLE.get(p, "check not built yet in this development (machinery in progress); see DESIGN.md section 5 for the planned theorem")}
      for p in props if p not in S.CHECKS]
m = {
    "version": 1,
    "setup_cmd": "./setup.sh",
    "hooks": {"guard": "SWH_MODEL_VERIF", "enable": "no source hooks are needed: the harness wraps os.scandir / random.sample / PYTHONHASHSEED from outside; checks set SWH_MODEL_VERIF=1 in the environment for uniformity",
              "baseline_off_cmd": "cd /repo && /venv/bin/python -m pytest -ra -q -p no:cacheprovider --timeout=900 --continue-on-collection-errors",
              "source_commits": S.HOOK_COMMITS, "add_only": True},
    "engines": [{"name": "coq-proof+correspondence", "path": "/verif/check", "serves_properties": sorted(S.CHECKS),
                 "kind_free_text": "Coq 8.16.1 theorems about hand-written executable Gallina models (coq/model), tied to /repo on every run by (a) tables regenerated from the sources into coq/Generated.v and (b) differential correspondence between the OCaml-extracted model and the imported implementation on generated inputs/histories"}],
    "checks": checks,
    "notes": S.NOTES,
    "not_applicable": na,
}
json.dump(m, open(os.path.join(os.path.dirname(__file__), "..", "MANIFEST.json"), "w"), indent=1)
print("MANIFEST.json:", len(checks), "checks,", len(na), "not claimed")
