#!/venv/bin/python
"""Translator: facts that are *data* in /repo's sources -> coq/Generated.v.

Run on every check (harness/core.py step 1).  Fail-closed: anything that is
not of the exact syntactic shape expected aborts with a non-zero status, which
the check reports as a broken tie (obligation `table:gen_tables`).

Module constants are read with `ast` from the working tree (never imported);
class schemas (attrs field tables) are read by importing swh.model.model with
PYTHONPATH=/repo and calling attr.fields.
"""
import ast
import os
import sys

REPO = os.environ.get("VERIF_REPO", "/repo")
VERIF = os.path.dirname(os.path.dirname(os.path.abspath(__file__)))
OUT = os.path.join(VERIF, "coq", "Generated.v")


class Fail(Exception):
    pass


def parse(rel):
    path = os.path.join(REPO, rel)
    return ast.parse(open(path, encoding="utf-8").read(), filename=path)


def top_assign(tree, name):
    for node in tree.body:
        if isinstance(node, ast.Assign) and len(node.targets) == 1 and isinstance(node.targets[0], ast.Name) \
                and node.targets[0].id == name:
            return node.value
        if isinstance(node, ast.AnnAssign) and isinstance(node.target, ast.Name) and node.target.id == name:
            return node.value
    raise Fail(f"no top-level assignment to {name}")


def find_func(tree, name, cls=None):
    body = tree.body
    if cls:
        for node in tree.body:
            if isinstance(node, ast.ClassDef) and node.name == cls:
                body = node.body
                break
        else:
            raise Fail(f"class {cls} not found")
    for node in body:
        if isinstance(node, (ast.FunctionDef,)) and node.name == name:
            return node
    raise Fail(f"function {name} not found")


def str_collection(node, what):
    """set([...]) / {...} / [...] / (...) of string constants -> list of str (source order)"""
    if isinstance(node, ast.Call) and isinstance(node.func, ast.Name) and node.func.id in ("set", "frozenset", "list", "tuple") \
            and len(node.args) == 1 and not node.keywords:
        node = node.args[0]
    if not isinstance(node, (ast.Set, ast.List, ast.Tuple)):
        raise Fail(f"{what}: not a literal collection")
    res = []
    for e in node.elts:
        if not (isinstance(e, ast.Constant) and isinstance(e.value, str)):
            raise Fail(f"{what}: non-string element")
        res.append(e.value)
    return res


def int_const(node, what):
    if isinstance(node, ast.Constant) and isinstance(node.value, int) and not isinstance(node.value, bool):
        return node.value
    if isinstance(node, ast.UnaryOp) and isinstance(node.op, ast.USub):
        return -int_const(node.operand, what)
    raise Fail(f"{what}: not an integer literal")


def enum_members(tree, cls, conv):
    for node in tree.body:
        if isinstance(node, ast.ClassDef) and node.name == cls:
            res = []
            for st in node.body:
                if isinstance(st, ast.Assign) and len(st.targets) == 1 and isinstance(st.targets[0], ast.Name):
                    res.append((st.targets[0].id, conv(st.value, f"{cls}.{st.targets[0].id}")))
                elif isinstance(st, ast.Expr) and isinstance(st.value, ast.Constant) and isinstance(st.value.value, str):
                    continue  # docstring
                elif isinstance(st, (ast.FunctionDef,)):
                    continue
                else:
                    raise Fail(f"{cls}: unexpected statement {ast.dump(st)[:60]}")
            return res
    raise Fail(f"enum {cls} not found")


def str_const(node, what):
    if isinstance(node, ast.Constant) and isinstance(node.value, str):
        return node.value
    raise Fail(f"{what}: not a string literal")


def bytes_const(node, what):
    if isinstance(node, ast.Constant) and isinstance(node.value, bytes):
        return node.value
    raise Fail(f"{what}: not a bytes literal")


# ------------------------------------------------------------------ emit
def coq_bytes(b):
    if isinstance(b, str):
        b = b.encode("utf-8")
    return "[" + "; ".join(str(x) for x in b) + "]%N"


def coq_list(xs):
    return "[" + "; ".join(xs) + "]"


def literal_str_seqs(fnode, module_tree=None):
    """all literal collections of string constants bound or iterated inside a function (and module-level
    constants the function refers to), in source order"""
    out = []
    nodes = list(ast.walk(fnode))
    if module_tree is not None:
        used = {n.id for n in nodes if isinstance(n, ast.Name)}
        for node in module_tree.body:
            if isinstance(node, ast.Assign) and len(node.targets) == 1 and isinstance(node.targets[0], ast.Name) \
                    and node.targets[0].id in used:
                nodes.append(node.value)
    for n in nodes:
        try:
            out.append(str_collection(n, "literal"))
        except Fail:
            pass
    return out


def emit():
    """returns (text of Generated.v, {missing identifier: reason}).  Every group of definitions is produced
    independently: a group that cannot be read is left out (its identifiers become unknown to Coq, so exactly the
    developments that use them stop compiling) and reported."""
    import importlib
    import attr
    sys.path.insert(0, REPO)
    L = []
    w = L.append
    missing = {}
    w("(* GENERATED by tools/gen_tables.py from /repo's working tree on every run.  Do not edit. *)")
    w("From Coq Require Import List NArith ZArith.")
    w("Import ListNotations.")
    w("")

    def group(idents, fn):
        lines = []
        try:
            fn(lines.append)
        except Fail as e:
            for i in idents:
                missing[i] = str(e)
            w("(* NOT GENERATED: " + ", ".join(idents) + " - " + str(e).replace("*)", "* )") + " *)")
            return
        except Exception as e:  # fail closed on anything unexpected, but only for this group
            for i in idents:
                missing[i] = "unexpected: " + repr(e)
            w("(* NOT GENERATED: " + ", ".join(idents) + " - unexpected " + repr(e).replace("*)", "* )") + " *)")
            return
        L.extend(lines)

    def mod(name):
        try:
            return importlib.import_module(name)
        except Exception as e:
            raise Fail(f"cannot import {name}: {e!r}")

    def str_list_value(v, what):
        if isinstance(v, (set, frozenset)):
            v = sorted(v)
        if not isinstance(v, (list, tuple)) or not all(isinstance(x, str) for x in v):
            raise Fail(f"{what} is not a collection of str")
        return list(v)

    def int_value(v, what):
        if not isinstance(v, int) or isinstance(v, bool):
            raise Fail(f"{what} is not an int")
        return v

    def str_enum(cls, what):
        import enum
        if not (isinstance(cls, type) and issubclass(cls, enum.Enum)):
            raise Fail(f"{what} is not an Enum")
        return [(m.name, m.value) for m in cls]

    # ---- hashutil.py
    def g_hashutil(w):
        h = mod("swh.model.hashutil")
        w("(* swh/model/hashutil.py *)")
        w(f"Definition HASH_BLOCK_SIZE : N := {int_value(h.HASH_BLOCK_SIZE, 'HASH_BLOCK_SIZE')}%N.")
        algos = sorted(str_list_value(h.ALGORITHMS, "ALGORITHMS"))
        dflt = sorted(str_list_value(h.DEFAULT_ALGORITHMS, "DEFAULT_ALGORITHMS"))
        w("Definition ALGORITHMS : list (list N) := " + coq_list(coq_bytes(a) for a in algos) + ".  (* " + " ".join(algos) + " *)")
        w("Definition DEFAULT_ALGORITHMS : list (list N) := " + coq_list(coq_bytes(a) for a in dflt) + ".  (* " + " ".join(dflt) + " *)")
    group(["HASH_BLOCK_SIZE", "ALGORITHMS", "DEFAULT_ALGORITHMS"], g_hashutil)

    def g_git_types(w):
        t = parse("swh/model/hashutil.py")
        f = find_func(t, "git_object_header")
        types = None
        for v in literal_str_seqs(f, t):
            if "blob" in v and "tree" in v:
                types = sorted(v)
        if types is None:
            raise Fail("the set of git object types accepted by git_object_header was not found")
        # cross-check behaviourally: exactly these are accepted
        h = mod("swh.model.hashutil")
        for ty in types + ["no-such-type"]:
            try:
                h.git_object_header(ty, 0)
                ok = True
            except ValueError:
                ok = False
            if ok != (ty in types):
                raise Fail(f"git_object_header({ty!r}) acceptance disagrees with the literal set")
        w("Definition GIT_OBJECT_TYPES : list (list N) := " + coq_list(coq_bytes(a) for a in types) + ".  (* " + " ".join(types) + " *)")
        w("")
    group(["GIT_OBJECT_TYPES"], g_git_types)

    # ---- from_disk.py
    def g_perms(w):
        fd = mod("swh.model.from_disk")
        w("(* swh/model/from_disk.py: DentryPerms *)")
        import enum
        if not issubclass(fd.DentryPerms, enum.IntEnum):
            raise Fail("DentryPerms is not an IntEnum")
        perms = [(m.name, int(m.value)) for m in fd.DentryPerms]
        for name, v in perms:
            w(f"Definition PERMS_{name} : N := {v}%N.")
        w("Definition DENTRY_PERMS : list N := " + coq_list(f"PERMS_{n}" for n, _ in perms) + ".")
        w("")
    group(["PERMS_content", "PERMS_executable_content", "PERMS_symlink", "PERMS_directory", "PERMS_revision", "DENTRY_PERMS"], g_perms)

    # ---- git_objects.py / model.py enums
    def g_release_map(w):
        go = mod("swh.model.git_objects")
        m = mod("swh.model.model")
        w("(* swh/model/git_objects.py: target_type_to_git (evaluated on every ReleaseTargetType member) *)")
        pairs = []
        for name, value in str_enum(m.ReleaseTargetType, "ReleaseTargetType"):
            g = go.target_type_to_git(m.ReleaseTargetType(value))
            if not isinstance(g, bytes):
                raise Fail("target_type_to_git does not return bytes")
            pairs.append((value, g))
        w("Definition RELEASE_TARGET_TO_GIT : list (list N * list N) := " + coq_list(
            f"({coq_bytes(k)}, {coq_bytes(v)})" for k, v in pairs) + ".  (* " + " ".join(f"{k}->{v.decode()}" for k, v in pairs) + " *)")
    group(["RELEASE_TARGET_TO_GIT"], g_release_map)

    def g_auth(w):
        m = mod("swh.model.model")
        mat = str_enum(m.MetadataAuthorityType, "MetadataAuthorityType")
        w("Definition METADATA_AUTHORITY_TYPES : list (list N) := " + coq_list(coq_bytes(v) for _, v in mat) + ".  (* " + " ".join(v for _, v in mat) + " *)")
    group(["METADATA_AUTHORITY_TYPES"], g_auth)

    def g_snap(w):
        m = mod("swh.model.model")
        stt = str_enum(m.SnapshotTargetType, "SnapshotTargetType")
        w("Definition SNAPSHOT_TARGET_TYPES : list (list N) := " + coq_list(coq_bytes(v) for _, v in stt) + ".  (* " + " ".join(v for _, v in stt) + " *)")
    group(["SNAPSHOT_TARGET_TYPES"], g_snap)

    def g_revtypes(w):
        m = mod("swh.model.model")
        rt = str_enum(m.RevisionType, "RevisionType")
        w("Definition REVISION_TYPES : list (list N) := " + coq_list(coq_bytes(v) for _, v in rt) + ".  (* " + " ".join(v for _, v in rt) + " *)")
    group(["REVISION_TYPES"], g_revtypes)

    def g_emd_keys(w):
        t = parse("swh/model/git_objects.py")
        f = find_func(t, "raw_extrinsic_metadata_git_object")
        keys = None
        for v in literal_str_seqs(f, t):
            if "origin" in v and "visit" in v and "path" in v:
                keys = v
        # behavioural cross-check (and last resort when the loop over a literal tuple has been rewritten): the order of the
        # context lines in the manifest of an object that carries all of them
        probed = None
        try:
            import datetime
            m, sw_, g = mod("swh.model.model"), mod("swh.model.swhids"), mod("swh.model.git_objects")

            def core(t, c):
                return sw_.CoreSWHID(object_type=t, object_id=bytes([c]) * 20)
            o = m.RawExtrinsicMetadata(
                target=sw_.ExtendedSWHID(object_type=sw_.ExtendedObjectType.CONTENT, object_id=b"\1" * 20),
                discovery_date=datetime.datetime(2020, 1, 1, tzinfo=datetime.timezone.utc),
                authority=m.MetadataAuthority(type=m.MetadataAuthorityType.FORGE, url="http://a"),
                fetcher=m.MetadataFetcher(name="n", version="1"), format="f", metadata=b"x", origin="http://o", visit=3,
                snapshot=core(sw_.ObjectType.SNAPSHOT, 2), release=core(sw_.ObjectType.RELEASE, 3),
                revision=core(sw_.ObjectType.REVISION, 4), path=b"/p", directory=core(sw_.ObjectType.DIRECTORY, 5))
            lines = g.raw_extrinsic_metadata_git_object(o).split(b"\0", 1)[1].split(b"\n\n", 1)[0].split(b"\n")
            words = [ln.split(b" ")[0].decode() for ln in lines]
            ctx = {"origin", "visit", "snapshot", "release", "revision", "path", "directory"}
            probed = [x for x in words if x in ctx]
            if sorted(probed) != sorted(ctx):
                probed = None
        except Fail:
            probed = None
        except Exception:
            probed = None
        if keys is None:
            if probed is None:
                raise Fail("the ordered tuple of metadata context keys was not found in raw_extrinsic_metadata_git_object")
            keys = probed
        elif probed is not None and list(keys) != probed:
            raise Fail("the context key order read from the source %r disagrees with the one observed in a manifest %r" % (list(keys), probed))
        w("Definition EMD_CONTEXT_KEYS : list (list N) := " + coq_list(coq_bytes(k) for k in keys) + ".  (* " + " ".join(keys) + " *)")
        w("")
    group(["EMD_CONTEXT_KEYS"], g_emd_keys)

    # ---- model.py: Timestamp bounds
    def g_ts(w):
        m = mod("swh.model.model")
        w("(* swh/model/model.py: Timestamp bounds *)")
        for k in ("MIN_SECONDS", "MAX_SECONDS", "MIN_MICROSECONDS", "MAX_MICROSECONDS"):
            if not hasattr(m.Timestamp, k):
                raise Fail(f"Timestamp.{k} does not exist")
            w(f"Definition TS_{k} : Z := ({int_value(getattr(m.Timestamp, k), 'Timestamp.' + k)})%Z.")
        w("")
    group(["TS_MIN_SECONDS", "TS_MAX_SECONDS", "TS_MIN_MICROSECONDS", "TS_MAX_MICROSECONDS"], g_ts)

    # ---- swhids.py
    def g_swhids(w):
        sw = mod("swh.model.swhids")
        w("(* swh/model/swhids.py *)")
        if not isinstance(sw.SWHID_NAMESPACE, str) or not isinstance(sw.SWHID_SEP, str) or not isinstance(sw.SWHID_CTXT_SEP, str):
            raise Fail("SWHID_NAMESPACE / SWHID_SEP / SWHID_CTXT_SEP are not str")
        w(f"Definition SWHID_NAMESPACE : list N := {coq_bytes(sw.SWHID_NAMESPACE)}.")
        w(f"Definition SWHID_VERSION : Z := {int_value(sw.SWHID_VERSION, 'SWHID_VERSION')}%Z.")
        types = str_list_value(sw.SWHID_TYPES, "SWHID_TYPES")
        ext_types = str_list_value(sw.EXTENDED_SWHID_TYPES, "EXTENDED_SWHID_TYPES")
        w("Definition SWHID_TYPES : list (list N) := " + coq_list(coq_bytes(a) for a in types) + ".  (* " + " ".join(types) + " *)")
        w("Definition EXTENDED_SWHID_TYPES : list (list N) := " + coq_list(coq_bytes(a) for a in ext_types) + ".  (* " + " ".join(ext_types) + " *)")
        w(f"Definition SWHID_SEP : list N := {coq_bytes(sw.SWHID_SEP)}.")
        w(f"Definition SWHID_CTXT_SEP : list N := {coq_bytes(sw.SWHID_CTXT_SEP)}.")
        quals = sorted(str_list_value(sw.SWHID_QUALIFIERS, "SWHID_QUALIFIERS"))
        w("Definition SWHID_QUALIFIERS : list (list N) := " + coq_list(coq_bytes(a) for a in quals) + ".  (* " + " ".join(quals) + " *)")
        ot = str_enum(sw.ObjectType, "ObjectType")
        w("Definition OBJECT_TYPES : list (list N * list N) := " + coq_list(f"({coq_bytes(n)}, {coq_bytes(v)})" for n, v in ot) + ".")
        eot = str_enum(sw.ExtendedObjectType, "ExtendedObjectType")
        w("Definition EXTENDED_OBJECT_TYPES : list (list N * list N) := " + coq_list(f"({coq_bytes(n)}, {coq_bytes(v)})" for n, v in eot) + ".")
        # qualifier print order: the attrs field order of QualifiedSWHID
        qf = [a.name for a in attr.fields(sw.QualifiedSWHID)]
        order = [n for n in qf if n in quals]
        w("Definition QUALIFIER_PRINT_ORDER : list (list N) := " + coq_list(coq_bytes(a) for a in order) + ".  (* " + " ".join(order) + " *)")
        w("")
    group(["SWHID_NAMESPACE", "SWHID_VERSION", "SWHID_TYPES", "EXTENDED_SWHID_TYPES", "SWHID_SEP", "SWHID_CTXT_SEP",
           "SWHID_QUALIFIERS", "OBJECT_TYPES", "EXTENDED_OBJECT_TYPES", "QUALIFIER_PRINT_ORDER"], g_swhids)

    # ---- model.py: duplicate-repair precedence in from_possibly_duplicated_entries
    def g_dedup(w):
        tm = parse("swh/model/model.py")
        f = find_func(tm, "from_possibly_duplicated_entries", cls="Directory")
        prec = None
        for v in literal_str_seqs(f):          # literals inside the function: its own precedence order
            if sorted(v) == ["dir", "file", "rev"]:
                prec = v
                break
        m = mod("swh.model.model")
        if prec is None:
            # hoisted to a module-level constant: an ordered collection the function ITERATES over (a name that is only
            # compared as a set, such as the list of all entry types, carries no order)
            iterated = []
            for n in ast.walk(f):
                it = n.iter if isinstance(n, (ast.For, ast.comprehension)) else None
                if isinstance(it, ast.Name):
                    v = getattr(m, it.id, None)
                    if isinstance(v, (list, tuple)) and sorted(map(str, v)) == ["dir", "file", "rev"] and list(v) not in iterated:
                        iterated.append(list(v))
            if len(iterated) == 1:
                prec = [str(x) for x in iterated[0]]
        # behavioural cross-check (and last resort): which entry keeps the name when the three kinds share it
        try:
            D, E = m.Directory, m.DirectoryEntry
            left, probed = ["file", "dir", "rev"], []
            while left:
                ents = tuple(E(name=b"n", type=t, target=bytes([i + 1]) * 20, perms=0o100644) for i, t in enumerate(left))
                _, d = D.from_possibly_duplicated_entries(entries=ents)
                keep = [e.type for e in d.entries if e.name == b"n"]
                if len(keep) != 1 or keep[0] not in left:
                    raise Fail("behavioural probe of the precedence is inconclusive: %r" % (keep,))
                probed.append(keep[0])
                left.remove(keep[0])
        except Fail:
            raise
        except Exception as e:
            probed = None
            if prec is None:
                raise Fail("entry type precedence sequence not found in from_possibly_duplicated_entries, and probing it failed: %r" % (e,))
        if prec is None:
            prec = probed
        elif probed is not None and list(prec) != probed:
            raise Fail("the precedence read from the source %r disagrees with the one observed %r" % (prec, probed))
        w("(* swh/model/model.py: Directory.from_possibly_duplicated_entries precedence *)")
        w("Definition DEDUP_PRECEDENCE : list (list N) := " + coq_list(coq_bytes(a) for a in prec) + ".  (* " + " ".join(prec) + " *)")
        w("")
    group(["DEDUP_PRECEDENCE"], g_dedup)

    # ---- attrs schemas of every model class
    def g_fields(w):
        m = mod("swh.model.model")
        sw = mod("swh.model.swhids")
        w("(* attrs field tables: (name, eq, hash-participates, has-default, has-converter) per class *)")
        classes = []
        for name in dir(m):
            obj = getattr(m, name)
            if isinstance(obj, type) and attr.has(obj) and obj.__module__ == "swh.model.model":
                classes.append(obj)
        classes.sort(key=lambda c: c.__name__)
        for c in classes + [sw.CoreSWHID, sw.ExtendedSWHID, sw.QualifiedSWHID]:
            rows = []
            for a in attr.fields(c):
                eq = bool(a.eq)
                hs = eq if a.hash is None else bool(a.hash)
                rows.append(f"({coq_bytes(a.name)}, {str(eq).lower()}, {str(hs).lower()}, "
                            f"{str(a.default is not attr.NOTHING).lower()}, {str(a.converter is not None).lower()})")
            w(f"Definition FIELDS_{c.__name__} : list (list N * bool * bool * bool * bool) := " + coq_list(rows) + ".")
            w(f"(* {c.__name__}: " + " ".join(a.name for a in attr.fields(c)) + " *)")
        w("Definition MODEL_CLASSES : list (list N * list (list N * bool * bool * bool * bool)) := " +
          coq_list(f"({coq_bytes(c.__name__)}, FIELDS_{c.__name__})" for c in classes) + ".")
    group(["FIELDS_*", "MODEL_CLASSES"], g_fields)

    # ---- model.py: per-field schema of the model classes (type, default, elided-when-None), enum/literal lists,
    #      generic_type_validator flags (wanted by model/Codec.v, see coq/GeneratedSchemaWanted.md)
    SCHEMA_CLASSES = ["Person", "Timestamp", "TimestampWithTimezone", "Origin", "OriginVisit", "OriginVisitStatus",
                      "SnapshotBranch", "Snapshot", "Release", "Revision", "DirectoryEntry", "Directory", "Content",
                      "SkippedContent", "MetadataAuthority", "MetadataFetcher", "RawExtrinsicMetadata", "ExtID"]

    def type_code(t):
        st = str(t).replace("typing.", "").replace("swh.model.model.", "").replace("swh.model.swhids.", "") \
            .replace("swh.model.collections.", "").replace("datetime.datetime", "datetime")
        return st.replace("<class '", "").replace("<enum '", "").replace("'>", "").replace(" ", "")

    def wire_default(v):
        if v is None:
            return "N"
        if v == b"" and isinstance(v, bytes):
            return "b;"
        if isinstance(v, int) and not isinstance(v, bool) and v == 0:
            return "i0;"
        if v == () and isinstance(v, tuple):
            return "()"
        if isinstance(v, str):
            return "s" + "".join("%06x" % ord(ch) for ch in v) + ";"
        raise Fail(f"default value {v!r} has no wire notation")

    def class_node(tree, name):
        for node in tree.body:
            if isinstance(node, ast.ClassDef) and node.name == name:
                return node
        raise Fail(f"class {name} not found")

    def elided_keys(tree, cls):
        """keys deleted under an `is None` test by a to_dict of the class's MRO"""
        keys = set()
        for c in cls.__mro__:
            if c.__module__ != "swh.model.model":
                continue
            node = class_node(tree, c.__name__)
            for fn in node.body:
                if isinstance(fn, ast.FunctionDef) and fn.name == "to_dict":
                    loops = {}   # loop variable -> literal keys
                    for st in ast.walk(fn):
                        if isinstance(st, ast.For) and isinstance(st.target, ast.Name):
                            try:
                                loops[st.target.id] = str_collection(st.iter, "to_dict loop")
                            except Fail:
                                # a loop over a name bound to a literal tuple in the same function
                                if isinstance(st.iter, ast.Name):
                                    for a2 in ast.walk(fn):
                                        if isinstance(a2, ast.Assign) and isinstance(a2.targets[0], ast.Name) and a2.targets[0].id == st.iter.id:
                                            loops[st.target.id] = str_collection(a2.value, "to_dict loop tuple")
                    for st in ast.walk(fn):
                        if isinstance(st, ast.Delete):
                            for tg in st.targets:
                                if not isinstance(tg, ast.Subscript):
                                    raise Fail(f"{c.__name__}.to_dict: unexpected del shape")
                                k = tg.slice
                                if isinstance(k, ast.Constant) and isinstance(k.value, str):
                                    keys.add(k.value)
                                elif isinstance(k, ast.Name) and k.id in loops:
                                    keys.update(loops[k.id])
                                else:
                                    raise Fail(f"{c.__name__}.to_dict: unexpected del key")
        return keys

    def g_schema(w):
        m = mod("swh.model.model")
        tm = parse("swh/model/model.py")
        w("(* swh/model/model.py: per-field schema (name, type, default in wire notation, elided-when-None) *)")
        for cn in SCHEMA_CLASSES:
            cls = getattr(m, cn, None)
            if cls is None or not attr.has(cls):
                raise Fail(f"model class {cn} not found")
            el = elided_keys(tm, cls)
            rows, comments = [], []
            for a in attr.fields(cls):
                d = None if a.default is attr.NOTHING else wire_default(a.default)
                tc = type_code(a.type)
                rows.append(f"({coq_bytes(a.name)}, {coq_bytes(tc)}, {'None' if d is None else 'Some ' + coq_bytes(d)}, {str(a.name in el).lower()})")
                comments.append(f"{a.name}:{tc}:{'-' if d is None else d}:{'elided' if a.name in el else 'kept'}")
            w(f"Definition SCHEMA_{cn} : list (list N * list N * option (list N) * bool) := " + coq_list(rows) + ".")
            w("(* " + "  ".join(comments).replace("*)", "* )") + " *)")
        w("Definition MODEL_SCHEMAS : list (list N * list (list N * list N * option (list N) * bool)) := " +
          coq_list(f"({coq_bytes(cn)}, SCHEMA_{cn})" for cn in SCHEMA_CLASSES) + ".")
    group(["SCHEMA_*", "MODEL_SCHEMAS"], g_schema)

    def in_list(tree, cls, field):
        """the literal list of attr.validators.in_([...]) of attr.ib `field` in class `cls`"""
        node = class_node(tree, cls)
        for st in node.body:
            if isinstance(st, ast.Assign) and isinstance(st.targets[0], ast.Name) and st.targets[0].id == field:
                for c in ast.walk(st.value):
                    if isinstance(c, ast.Call) and isinstance(c.func, ast.Attribute) and c.func.attr == "in_" and c.args:
                        arg = c.args[0]
                        if isinstance(arg, ast.Name):
                            v = top_assign(tree, arg.id)
                            return str_collection(v, f"{cls}.{field} in_")
                        return str_collection(arg, f"{cls}.{field} in_")
        raise Fail(f"in_([...]) validator of {cls}.{field} not found")

    def g_enums2(w):
        m = mod("swh.model.model")
        tm = parse("swh/model/model.py")
        rtt = str_enum(m.ReleaseTargetType, "ReleaseTargetType")
        w("Definition RELEASE_TARGET_TYPES : list (list N) := " + coq_list(coq_bytes(v) for _, v in rtt) + ".  (* " + " ".join(v for _, v in rtt) + " *)")
        vs = in_list(tm, "OriginVisitStatus", "status")
        w("Definition VISIT_STATUSES : list (list N) := " + coq_list(coq_bytes(v) for v in vs) + ".  (* " + " ".join(vs) + " *)")
        de = in_list(tm, "DirectoryEntry", "type")
        w("Definition DIR_ENTRY_TYPES : list (list N) := " + coq_list(coq_bytes(v) for v in de) + ".  (* " + " ".join(de) + " *)")
        cs = in_list(tm, "Content", "status")
        w("Definition CONTENT_STATUSES : list (list N) := " + coq_list(coq_bytes(v) for v in cs) + ".  (* " + " ".join(cs) + " *)")
        bs_ = in_list(tm, "BaseContent", "status")
        w("Definition BASE_CONTENT_STATUSES : list (list N) := " + coq_list(coq_bytes(v) for v in bs_) + ".  (* " + " ".join(bs_) + " *)")
        sk = in_list(tm, "SkippedContent", "status")
        w("Definition SKIPPED_CONTENT_STATUSES : list (list N) := " + coq_list(coq_bytes(v) for v in sk) + ".  (* " + " ".join(sk) + " *)")
    group(["RELEASE_TARGET_TYPES", "VISIT_STATUSES", "DIR_ENTRY_TYPES", "CONTENT_STATUSES", "BASE_CONTENT_STATUSES", "SKIPPED_CONTENT_STATUSES"], g_enums2)

    def g_generic(w):
        m = mod("swh.model.model")
        tm = parse("swh/model/model.py")
        w("(* fields whose attr.ib carries validator=generic_type_validator (read from the class bodies, MRO order) *)")
        factories = set()
        for node in tm.body:
            if isinstance(node, ast.FunctionDef) and node.name != "generic_type_validator":
                for call in ast.walk(node):
                    if isinstance(call, ast.Call) and any(
                            kw.arg == "validator" and any(isinstance(n, ast.Name) and n.id == "generic_type_validator" for n in ast.walk(kw.value))
                            for kw in call.keywords):
                        factories.add(node.name)
        for cn in SCHEMA_CLASSES:
            cls = getattr(m, cn)
            flagged = set()
            for c in cls.__mro__:
                if c.__module__ != "swh.model.model":
                    continue
                node = class_node(tm, c.__name__)
                for st in node.body:
                    if isinstance(st, ast.Assign) and isinstance(st.targets[0], ast.Name) and isinstance(st.value, ast.Call):
                        for kw in st.value.keywords:
                            if kw.arg == "validator" and any(isinstance(n, ast.Name) and n.id == "generic_type_validator" for n in ast.walk(kw.value)):
                                flagged.add(st.targets[0].id)
                        # the attribute may be declared through a small module-level factory (`id = _id_attrib()`): look
                        # for the validator in the body of the function that is called
                        fn = st.value.func
                        if isinstance(fn, ast.Name) and fn.id in factories:
                            flagged.add(st.targets[0].id)
            names = [a.name for a in attr.fields(cls) if a.name in flagged]
            w(f"Definition GENERIC_VALIDATED_{cn} : list (list N) := " + coq_list(coq_bytes(n) for n in names) + ".  (* " + " ".join(names) + " *)")
    group(["GENERIC_VALIDATED_*"], g_generic)
    return "\n".join(L) + "\n", missing


def main():
    import json
    try:
        text, missing = emit()
    except Exception as e:  # nothing could be generated at all
        import traceback
        traceback.print_exc()
        print("gen_tables: FAIL (unexpected):", repr(e))
        return 2
    old = open(OUT).read() if os.path.exists(OUT) else None
    if old != text:
        tmp = OUT + ".tmp"
        open(tmp, "w").write(text)
        os.replace(tmp, OUT)
        print("gen_tables: Generated.v rewritten")
    else:
        print("gen_tables: Generated.v unchanged")
    json.dump(missing, open(OUT[:-2] + ".missing.json", "w"), indent=1)
    for k, v in missing.items():
        print("gen_tables: NOT GENERATED:", k, "-", v)
    return 0


if __name__ == "__main__":
    sys.exit(main())
