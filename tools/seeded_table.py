#!/usr/bin/env python3
"""prints the markdown table of seeded changes (from /verif/seeded/*/meta.json) and rewrites the block between
<!-- SEEDED-TABLE-BEGIN --> and <!-- SEEDED-TABLE-END --> in DESIGN.md"""
import json, os, re, glob
root = os.path.dirname(os.path.dirname(os.path.abspath(__file__)))
rows = []
for d in sorted(glob.glob(os.path.join(root, "seeded", "*"))):
    try:
        m = json.load(open(os.path.join(d, "meta.json")))
    except Exception:
        continue
    name = os.path.basename(d)
    if name.startswith("harmless"):
        continue
    kind = (m.get("check") or {}).get("replay_kind") or "-"
    det = "caught" if m.get("detected") else "MISSED"
    note = m.get("history", "")
    summ = (m.get("summary") or "").replace("|", "/").replace("\n", " ")
    needs = (m.get("needs") or "").replace("|", "/").replace("\n", " ")
    rows.append(f"| {name} | {m.get('property')} | {summ[:260]} | {needs[:200]} | {det} ({kind}){' - ' + note if note else ''} |")
table = "| seed | property | change | needs, to manifest | `./check` quick tier |\n|---|---|---|---|---|\n" + "\n".join(rows)
p = os.path.join(root, "DESIGN.md")
s = open(p).read()
if "<!-- SEEDED-TABLE-BEGIN -->" in s:
    s = re.sub(r"<!-- SEEDED-TABLE-BEGIN -->.*<!-- SEEDED-TABLE-END -->", "<!-- SEEDED-TABLE-BEGIN -->\n" + table.replace("\\", "\\\\") + "\n<!-- SEEDED-TABLE-END -->", s, flags=re.S)
    open(p, "w").write(s)
print(table)
