#!/bin/bash
# usage: tools/all_checks_against.sh <repo dir> [property ids...]   -> one line per check
repo=$1; shift
props=${@:-C01 C02 C03 C04 C05 C06 C07 C08 C09 C10 C11 C12 C13 C14 C15 C16 C17 C18 C19 C20}
for p in $props; do
  out=$(cd /verif && VERIF_REPO=$repo timeout 3000 ./check $p --tier quick 2>/tmp/w/allchk_$p.err | grep -v '^KNOWN' | tail -1)
  echo "$p: ${out:-ok}"
done
