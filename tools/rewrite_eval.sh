#!/bin/bash
# usage: tools/rewrite_eval.sh <name> <property ids, space separated> <sed-expression> <file relative to repo>
# applies a source edit in a scratch worktree and runs the given quick checks against it; prints one line per check
name=$1; props=$2; expr=$3; file=$4
wt=/tmp/w/rw_$name
git -C /repo worktree remove --force $wt >/dev/null 2>&1
git -C /repo worktree add -q $wt HEAD || exit 2
sed -i "$expr" $wt/$file
changed=$(git -C $wt diff --stat | tail -1)
( cd $wt && PYTHONPATH=$wt /venv/bin/python -m pytest -q -p no:cacheprovider -x --timeout=900 >/tmp/w/rw_$name.tests 2>&1 ); t=$?
for p in $props; do
  out=$(cd /verif && VERIF_REPO=$wt timeout 3000 ./check $p --tier quick 2>/dev/null | grep -v '^KNOWN' | tail -1)
  echo "$name [$changed] tests_exit=$t $p: ${out:-exit0-no-violation}"
done
git -C /repo worktree remove --force $wt
