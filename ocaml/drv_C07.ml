(* C07 driver.  No logic: parses a request, calls the extracted model with
   H := sha1 (lib/Sha1.v), prints every observable of the resulting object.

     new <kind> <attrs> <rawarg> <id>
     evo <kind> <attrs> <rawarg> <id> <ch_attrs> <ch_raw> <ch_id>
     tag <kind>                          -> ok <tag text> | none

   kind    origin|snapshot|release|revision|directory|raw_extrinsic_metadata|extid
   attrs   hex of the attributes' manifest, "." empty, "-" the manifest function raises TypeError
   rawarg  "=" no raw_manifest keyword | "-" raw_manifest=None | hex
   id      hex, "." = b"" (no id)
   ch_attrs "=" attributes unchanged | "-" the new attributes have no manifest | hex new manifest
   ch_raw   "=" | "-" | hex ;  ch_id "=" no id keyword | hex or "."

   answer: ok <id> <compute_hash: hex|!Err> <check: ok|!Err> <swhid: tag:idhex|!Err>
           err <Err>        (the constructor / evolve raised) *)
let kind_of = function
  | "origin" -> KOrigin | "snapshot" -> KSnapshot | "release" -> KRelease | "revision" -> KRevision
  | "directory" -> KDirectory | "raw_extrinsic_metadata" -> KRawExtrinsicMetadata | "extid" -> KExtID
  | _ -> failwith "kind"
let err_name = function
  | TypeError -> "TypeError" | ValueError -> "ValueError" | ValidationError -> "ValidationError"
  | AttributeError -> "AttributeError"
let opt_arg (s : string) : n list option option =
  if s = "=" then None else Some (opt_bytes_of_hex s)
let text_of_bytes (l : n list) : string = String.concat "" (List.map (fun b -> String.make 1 (Char.chr (int_of_n b))) l)
let show (r : hobj result) : string =
  match r with
  | Err e -> "err " ^ err_name e
  | Ok o ->
      let ch = (match compute_hash sha1 o with Ok h -> hex_of_bytes h | Err e -> "!" ^ err_name e) in
      let ck = (match check sha1 o with Ok _ -> "ok" | Err e -> "!" ^ err_name e) in
      let sw = (match swhid o with Ok (t, i) -> text_of_bytes t ^ ":" ^ hex_of_bytes i | Err e -> "!" ^ err_name e) in
      String.concat " " ["ok"; hex_of_bytes o.h_id; ch; ck; sw]
let () = serve (function
  | ["new"; k; a; r; i] -> show (construct sha1 (kind_of k) (opt_bytes_of_hex a) (opt_arg r) (bytes_of_hex i))
  | ["evo"; k; a; r; i; ca; cr; ci] ->
      (match construct sha1 (kind_of k) (opt_bytes_of_hex a) (opt_arg r) (bytes_of_hex i) with
       | Err e -> "err base " ^ err_name e
       | Ok o ->
           show (evolve sha1 o { ch_attrs = opt_arg ca; ch_raw = opt_arg cr;
                                 ch_id = (if ci = "=" then None else Some (bytes_of_hex ci)) }))
  | ["tag"; k] -> (match swhid_tag (kind_of k) with Some t -> "ok " ^ text_of_bytes t | None -> "none")
  | _ -> "err bad_request")
