(* C08 driver.  Requests (<ns> = namespace text or "-" = left at the default, <ver> = decimal or "-"):
     c core|ext <ns> <ver> <ty> <oid>      -> mkerr=<E> | P=<text> R=<parse(P)> X=<to_extended> XP=<its text> Q=<to_qualified> QP=<its text>
     q <lim> <ns> <ver> <ty> <oid> <origin> <visit> <anchor> <path> <lines>
                                            -> mkerr=<E> | P=<text|err> R=<parse_q(P)|->
     lang core|ext|q <text>                 -> t|f     (the extracted recogniser of the documented language) *)
(* --- (de)serialisation shared by drv_C08.ml and drv_C09.ml (kept textually identical).
   text  = code points, decimal, ','-separated; "." = empty; "-" = None
   bytes = hex ("." empty, "-" None);  type = plain ASCII word
   core  = ty:hex | "-" ;  lines = a | a:b | "-" (bare) ;  lim = decimal *)
let text_of_tok (s : String.t) : n list =
  if s = "." then [] else List.map (fun p -> n_of_int (int_of_string p)) (String.split_on_char ',' s)
let tok_of_text (l : n list) : String.t =
  if l = [] then "." else String.concat "," (List.map (fun c -> string_of_int (int_of_n c)) l)
let opt_text_of_tok s = if s = "-" then None else Some (text_of_tok s)
let tok_of_opt_text o = match o with None -> "-" | Some l -> tok_of_text l
let ascii_text (s : String.t) : n list = List.init (String.length s) (fun i -> n_of_int (Char.code s.[i]))
let word_of_text (l : n list) : String.t =
  if l = [] then "." else String.concat "" (List.map (fun c -> let i = int_of_n c in
    if i > 32 && i < 127 && i <> 58 && i <> 47 then String.make 1 (Char.chr i) else Printf.sprintf "\\u%04x" i) l)
let core_of_tok s = match String.split_on_char ':' s with
  | [t; h] -> { c_ty = (if t = "." then [] else ascii_text t); c_oid = bytes_of_hex h }
  | _ -> failwith "core"
let opt_core_of_tok s = if s = "-" then None else Some (core_of_tok s)
let tok_of_core c = word_of_text c.c_ty ^ ":" ^ hex_of_bytes c.c_oid
let tok_of_opt_core o = match o with None -> "-" | Some c -> tok_of_core c
let lines_of_tok s = if s = "-" then None else
  match String.split_on_char ':' s with
  | [a] -> Some (z_of_decimal a, None)
  | [a; b] -> Some (z_of_decimal a, Some (z_of_decimal b))
  | _ -> failwith "lines"
let tok_of_lines o = match o with
  | None -> "-"
  | Some (a, None) -> decimal_of_z a
  | Some (a, Some b) -> decimal_of_z a ^ ":" ^ decimal_of_z b
let err_name e = match e with
  | EValidation -> "ValidationError" | EValue -> "ValueError" | EType -> "TypeError" | EAssertion -> "AssertionError"
let show_res show r = match r with Ok v -> "ok=" ^ show v | Err e -> "err=" ^ err_name e
let show_q v = String.concat "/" [word_of_text v.q_ty; hex_of_bytes v.q_oid; tok_of_opt_text v.q_origin;
  tok_of_opt_core v.q_visit; tok_of_opt_core v.q_anchor; hex_of_opt_bytes v.q_path; tok_of_lines v.q_lines]
let tf b = if b then "t" else "f"
let opt_z_of_tok s = if s = "-" then None else Some (z_of_decimal s)
let word s = if s = "." then [] else ascii_text s
let () = serve (function
  | ["c"; cls; ns; ver; ty; oid] ->
      let mk = if cls = "ext" then mk_ext_nv else mk_core_nv in
      let parse = if cls = "ext" then parse_ext else parse_core in
      (match mk (opt_text_of_tok ns) (opt_z_of_tok ver) (word ty) (bytes_of_hex oid) with
       | Err e -> "mkerr=" ^ err_name e
       | Ok c ->
           let p = print_core c in
           let base = "P=" ^ tok_of_text p ^ " R=" ^ show_res tok_of_core (parse p) in
           if cls = "ext" then base else
           base ^ " X=" ^ show_res tok_of_core (to_extended c)
                ^ " XP=" ^ (match to_extended c with Ok x -> tok_of_text (print_core x) | Err _ -> "-")
                ^ " Q=" ^ show_res show_q (to_qualified c)
                ^ " QP=" ^ (match to_qualified c with
                            | Ok q -> show_res tok_of_text (print_q (n_of_int 0) q)
                            | Err _ -> "-"))
  | ["q"; lim; ns; ver; ty; oid; origin; visit; anchor; path; lines] ->
      let lim = n_of_int (int_of_string lim) in
      (match mk_q_nv (opt_text_of_tok ns) (opt_z_of_tok ver) (word ty) (bytes_of_hex oid) (opt_text_of_tok origin)
               (opt_core_of_tok visit) (opt_core_of_tok anchor) (opt_bytes_of_hex path) (lines_of_tok lines) with
       | Err e -> "mkerr=" ^ err_name e
       | Ok v ->
           (match print_q lim v with
            | Err e -> "P=err=" ^ err_name e ^ " R=-"
            | Ok p -> "P=ok=" ^ tok_of_text p ^ " R=" ^ show_res show_q (parse_q lim p)))
  | ["lang"; cls; t] ->
      let t = text_of_tok t in
      tf (match cls with "core" -> lang_core t | "ext" -> lang_ext t | _ -> lang_q t)
  | _ -> "err bad_request")
