(* C05 driver.  branches = b|b|... or "." ; b = namehex:kind:targethex   kind in c d v r s a (alias) - (dangling, target ignored)
     snap <ignore 0|1> <branches> -> ok <manifest hex> <sha1 hex> | unresolved n:t|n:t.. | err ValueError (validator)
     dec <manifest hex>           -> ok kindword:name:target|...  | none *)
let parse_branch (s : string) : (n list * branch option) =
  match String.split_on_char ':' s with
  | [n; k; t] ->
      let name = bytes_of_hex n in
      if k = "-" then (name, None) else
      let ty = (match k with "c" -> BContent | "d" -> BDirectory | "v" -> BRevision | "r" -> BRelease
                            | "s" -> BSnapshot | _ -> BAlias) in
      (name, Some { b_target = bytes_of_hex t; b_type = ty })
  | _ -> failwith "branch"
let parse_branches s = if s = "." then [] else List.map parse_branch (String.split_on_char '|' s)
let () = serve (function
  | ["snap"; ig; b] ->
      let bs0 = parse_branches b in
      if not (valid_snapshot bs0) then "err ValueError" else
      (match snapshot_git_object bs0 (ig = "1") with
       | SnapOk m -> "ok " ^ hex_of_bytes m ^ " " ^ hex_of_bytes (sha1 m)
       | SnapUnresolved u -> "unresolved " ^ String.concat "|" (List.map (fun (a, t) -> hex_of_bytes a ^ ":" ^ hex_of_bytes t) u))
  | ["dec"; m] ->
      (match decode_snapshot_object (bytes_of_hex m) with
       | Some rs -> "ok " ^ (if rs = [] then "." else
           String.concat "|" (List.map (fun ((w, nm), t) -> hex_of_bytes w ^ ":" ^ hex_of_bytes nm ^ ":" ^ hex_of_bytes t) rs))
       | None -> "none")
  | _ -> "err bad_request")
