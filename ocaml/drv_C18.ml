(* C18 driver.  Requests:
     cfg <kind> <type> <deref> <filename> <recursive> <verify> <exclude>
        kind   = file|dir|linkfile|linkdir|stdin|url|gitrepo|missing|badurl|refusedurl|badrefs
        type   = auto|content|directory|origin|snapshot
        verify = none|match|nonmatch ; the flags are 0|1
        -> ok inscope=0|1 literal=0|1 des=<obj>,<excluded> model=<outcome> spec=<outcome> strict=<outcome>
              old1=<outcome> old2=<outcome> old3=<outcome> old4=<outcome> old5=<outcome> old6=<outcome>
           (old1..old5 = the code before each of the five repairs: realpath str, rectype, autolink, recfollows,
            origin ValueError uncaught, StopIteration swallowed by zip/map; `silent` = nothing printed, exit 0)
           outcome = print,<obj>,<excluded>,<shown>,<listing> | usage | exit0 | exit1 | crash,<class>
     many <type> <deref> <filename> <recursive> <verify> <exclude> <kind,kind,...>   ("." = no argument)
        -> ok inscope=0|1 model=<run> spec=<run>
           run = <line>|<line>|...;<end>  ("." = no line), line = <obj>,<excluded>,<shown>,<listing>,
           end = done | usage | exit0 | exit1 | crash,<class>
     count  -> ok <length all_cfgs> *)
let kind_of = function
  | "file" -> AFile | "dir" -> ADir | "linkfile" -> ALinkFile | "linkdir" -> ALinkDir
  | "stdin" -> AStdin | "url" -> AUrl | "gitrepo" -> AGitRepo | "missing" -> AMissing | "badurl" -> ABadUrl | "refusedurl" -> ARefusedUrl | "badrefs" -> ABadRefsRepo
  | _ -> failwith "kind"
let type_of = function
  | "auto" -> TAuto | "content" -> TContent | "directory" -> TDirectory | "origin" -> TOrigin
  | "snapshot" -> TSnapshot | _ -> failwith "type"
let ver_of = function "none" -> VNone | "match" -> VMatch | "nonmatch" -> VNonMatch | _ -> failwith "verify"
let bool_of = function "1" -> true | "0" -> false | _ -> failwith "flag"
let b x = if x then "1" else "0"
let show_obj = function
  | OPathContent -> "pathcontent" | OLinkText -> "linktext" | OTargetFile -> "targetfile"
  | OEmptyContent -> "empty" | OStdin -> "stdin" | ODirAtPath -> "dirpath" | ODirAtLinkTarget -> "dirtarget"
  | OOrigin -> "origin" | OSnapshot -> "snapshot" | ONothing -> "nothing" | ORefusedOrigin -> "refused" | OUnreadableSnapshot -> "unreadable"
let show_crash = function
  | CrTypeError -> "TypeError" | CrNotADirectory -> "NotADirectoryError" | CrFileNotFound -> "FileNotFoundError"
  | CrNotGitRepository -> "NotGitRepository" | CrValueError -> "ValueError" | CrStopIteration -> "StopIteration"
let show_outcome = function
  | Print (o, e, s, l) -> String.concat "," ["print"; show_obj o; b e; b s; b l]
  | Usage -> "usage" | Exit0 -> "exit0" | Exit1 -> "exit1" | Silent -> "silent"
  | Crash c -> "crash," ^ show_crash c
let show_line (((o, e), s), l) = String.concat "," [show_obj o; b e; b s; b l]
let show_end = function
  | MDone -> "done" | MUsageEnd -> "usage" | MExit0 -> "exit0" | MExit1 -> "exit1"
  | MCrashEnd c -> "crash," ^ show_crash c
let show_run (MOut (ls, e)) =
  (if ls = [] then "." else String.concat "|" (List.map show_line ls)) ^ ";" ^ show_end e
let () = serve (function
  | ["cfg"; k; t; d; f; r; v; x] ->
      let c = { arg = kind_of k; ty = type_of t; deref = bool_of d; fname = bool_of f; recur = bool_of r;
                ver = ver_of v; excl = bool_of x } in
      let (o, e) = designated c in
      String.concat " " [
        "ok"; "inscope=" ^ b (in_scope c); "literal=" ^ b (in_scope_literal c);
        "des=" ^ show_obj o ^ "," ^ b e;
        "model=" ^ show_outcome (identify_model c); "spec=" ^ show_outcome (spec c);
        "strict=" ^ show_outcome (spec_strict c);
        "old1=" ^ show_outcome (identify_old_realpath c); "old2=" ^ show_outcome (identify_old_rectype c);
        "old3=" ^ show_outcome (identify_old_autolink c); "old4=" ^ show_outcome (identify_old_recfollows c);
        "old5=" ^ show_outcome (identify_old_originuncaught c);
        "old6=" ^ show_outcome (identify_old_stopswallowed c) ]
  | ["many"; t; d; f; r; v; x; ks] ->
      let c = { arg = AFile; ty = type_of t; deref = bool_of d; fname = bool_of f; recur = bool_of r;
                ver = ver_of v; excl = bool_of x } in
      let ks = if ks = "." then [] else List.map kind_of (String.split_on_char ',' ks) in
      String.concat " " [
        "ok"; "inscope=" ^ b (in_scope_many c ks);
        "model=" ^ show_run (identify_many c ks); "spec=" ^ show_run (spec_many c ks) ]
  | ["count"] -> "ok " ^ string_of_int (List.length all_cfgs)
  | _ -> "err bad_request")
