(* C13 driver (the C06 driver is the same file without the pattern filter and the glob request).
   tree  ::= R<mode>:<datahex> | L:<texthex> | S<mode> | D[<namehex>=<tree>;...]   (D[] = empty directory)
   filter ::= all | empty | named:<0|1 case_sensitive>:<namehex>,<namehex>... | pat:<patternhex>,<patternhex>...
              (pat = ignore_directories_patterns, through the two-predicate model FromDiskPat.from_disk_pat; iterids does
               not take it: the literal stack/queue model covers the name / emptiness filters only)
     ids <filter> <limit|-> <order id|rev> <tree> -> ok <pathhex>=<idhex>;...   (every node of the resulting Merkle tree; root path ".")
                                                  | err SymlinkTooLarge
     iterids <filter> <limit|-> <order id|rev> <tree> -> the same, through the literal stack/queue model from_disk_iter
                                                  (err MODEL <KeyError|Assert|OutOfFuel> cannot happen: C06_iter_total)
     rootid <filter> <limit|-> <order id|rev> <tree> -> ok <root id>   (linear in the tree: for deep chains, where `ids` is quadratic)
     spec <tree>                                   -> ok <node_id> <git_node_id> <wf 0|1>
     pruned <filter> <tree>                        -> ok <node_id of the physically pruned tree>
     export <filter> <limit|-> <tree>              -> ok D:<id>:<target,target..>;C:<id>:<sha1 of data>:<len>;S:<id>:<len>;...
     norm <pathhex>                                -> ok <hex>
     glob <patternhex> <texthex>                   -> ok <0|1>        (glob_match)
     oldpass2 <k> <filter pat:..> <tree>           -> ids with the pre-fix pass-2 view of a root k components deep *)
let rec parse_tree (s : string) (i : int ref) : fsnode =
  let c = s.[!i] in
  incr i;
  let read_until stops =
    let b = Buffer.create 16 in
    while !i < String.length s && not (List.mem s.[!i] stops) do Buffer.add_char b s.[!i]; incr i done;
    Buffer.contents b in
  match c with
  | 'R' -> let mode = read_until [':'] in incr i; let d = read_until [';'; ']'] in
           Reg (bytes_of_hex (if d = "" then "." else d), n_of_decimal mode)
  | 'L' -> incr i; let d = read_until [';'; ']'] in Lnk (bytes_of_hex (if d = "" then "." else d))
  | 'S' -> let mode = read_until [';'; ']'] in Special (n_of_decimal mode)
  | 'D' -> incr i; (* [ *)
           let kids = ref [] in
           while s.[!i] <> ']' do
             let name = read_until ['='] in incr i;
             let t = parse_tree s i in
             kids := (bytes_of_hex (if name = "" then "." else name), t) :: !kids;
             if s.[!i] = ';' then incr i
           done;
           incr i; FDir (List.rev !kids)
  | _ -> failwith "tree"
let tree_of s = parse_tree s (ref 0)
let parse_filter (s : string) : filt =
  match String.split_on_char ':' s with
  | ["all"] -> FAll
  | ["empty"] -> FEmpty
  | ["named"; cs; ns] -> FNamed ((if ns = "" then [] else List.map bytes_of_hex (String.split_on_char ',' ns)), cs = "1")
  | _ -> failwith "filter"
type flt = Old of filt | Pat of n list list
let parse_flt (s : string) : flt =
  match String.split_on_char ':' s with
  | ["pat"; ps] -> Pat (if ps = "" then [] else List.map bytes_of_hex (String.split_on_char ',' ps))
  | _ -> Old (parse_filter s)
let read_tree ord (f : flt) lim t =
  match f with
  | Old f -> from_disk ord f lim t
  | Pat ps -> from_disk_pat ord (pat_filter ps) (pat_filter ps) lim t
let parse_limit s = if s = "-" then None else Some (n_of_decimal s)
let slash = n_of_int 47
let rec all_nodes (prefix : n list list) (m : mtree) : (n list list * mtree) list =
  (prefix, m) :: (match m with
                  | MLeaf _ -> []
                  | MNode ks -> List.concat_map (fun (n, c) -> all_nodes (prefix @ [n]) c) ks)
let join_path (p : n list list) : string =
  if p = [] then "." else hex_of_bytes (List.concat (List.mapi (fun i x -> if i = 0 then x else slash :: x) p))
let show_ids (m : mtree) : string =
  "ok " ^ String.concat ";" (List.map (fun (p, n) -> join_path p ^ "=" ^ hex_of_bytes (mt_id sha1 n)) (all_nodes [] m))
let () = serve (function
  | ["ids"; f; lim; o; t] ->
      let ord = if o = "rev" then (fun _ l -> List.rev l) else (fun _ l -> l) in
      (match read_tree ord (parse_flt f) (parse_limit lim) (tree_of t) with
       | FdOk m -> show_ids m
       | FdSymlinkTooLarge -> "err SymlinkTooLarge")
  | ["rootid"; f; lim; o; t] ->
      let ord = if o = "rev" then (fun _ l -> List.rev l) else (fun _ l -> l) in
      (match read_tree ord (parse_flt f) (parse_limit lim) (tree_of t) with
       | FdOk m -> "ok " ^ hex_of_bytes (mt_id sha1 m)
       | FdSymlinkTooLarge -> "err SymlinkTooLarge")
  | ["oldpass2"; k; f; t] ->
      (match parse_flt f with
       | Pat ps -> (match from_disk_pat (fun _ l -> l) (pat_filter ps) (old_pass2 (nat_of_int (int_of_string k)) ps) None (tree_of t) with
                    | FdOk m -> show_ids m
                    | FdSymlinkTooLarge -> "err SymlinkTooLarge")
       | Old _ -> "err bad_request")
  | ["glob"; p; t] -> if glob_match (bytes_of_hex p) (bytes_of_hex t) then "ok 1" else "ok 0"
  | ["iterids"; f; lim; o; t] ->
      (match from_disk_iter (if o = "rev" then lrev else lid) (parse_filter f) (parse_limit lim) (tree_of t) with
       | ItOk m -> show_ids m
       | ItSymlinkTooLarge -> "err SymlinkTooLarge"
       | ItKeyError -> "err MODEL KeyError"
       | ItAssert -> "err MODEL Assert"
       | ItOutOfFuel -> "err MODEL OutOfFuel")
  | ["spec"; t] ->
      let tr = tree_of t in
      "ok " ^ hex_of_bytes (node_id sha1 tr) ^ " " ^ hex_of_bytes (git_node_id sha1 tr) ^ (if wf_fs tr then " 1" else " 0")
  | ["pruned"; f; t] ->
      let tr = tree_of t in
      let p = (match parse_flt f with
               | Pat ps -> prune_pat ps tr
               | Old FAll -> tr | Old FEmpty -> prune_empty tr | Old (FNamed (ns, cs)) -> prune_named ns cs tr) in
      "ok " ^ hex_of_bytes (node_id sha1 p)
  | ["export"; f; lim; t] ->
      (match read_tree (fun _ l -> l) (parse_flt f) (parse_limit lim) (tree_of t) with
       | FdOk m ->
           let xs = export sha1 m in
           "ok " ^ (if xs = [] then "." else String.concat ";" (List.map (function
             | XDir (i, es) -> "D:" ^ hex_of_bytes i ^ ":" ^ (if es = [] then "." else String.concat "," (List.map (fun e -> hex_of_bytes e.e_target) es))
             | XContent (i, d) -> "C:" ^ hex_of_bytes i ^ ":" ^ hex_of_bytes (sha1 d) ^ ":" ^ string_of_int (List.length d)
             | XSkipped (i, l) -> "S:" ^ hex_of_bytes i ^ ":" ^ decimal_of_n l) xs))
       | FdSymlinkTooLarge -> "err SymlinkTooLarge")
  | ["norm"; p] -> "ok " ^ hex_of_bytes (norm_path (bytes_of_hex p))
  | _ -> "err bad_request")
