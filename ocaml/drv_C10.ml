(* C10 driver.  One request carries a whole history:
     run <by_id:0|1> <old_truthy:0|1> <op;op;...>     -> ok <out;out;...>
   (by_id 1 / old_truthy 0 = the code as it is; the other values are the two recorded mutants)
   op  = N,<kind n|l|d|c>,<data>   new node (handle = number of nodes so far)
       | S,p,key,c | D,p,key | U,p,<name=c+name=c|.> | G,p,key | C,p,key
       | H,n (read .hash) | F,n (update_hash(force=True)) | E,n (entries) | M,n (to_model)
       | L,n (collect) | R,n (reset_collect) | W,n,<data> (node.data = data, no invalidation) | I,n (swhid().object_id) | Q,a,b (a == b)
   out = u | h<handle> | b0|b1 | x<hash> | e<name:data:hash+...> | n<handle:hash,...> | !<error>
   byte strings in hex ("." = empty).  The node hash function NH handed to
   the model is MD5 (OCaml's Digest) of an injective text encoding of
   (data, [(name, child data, child hash)]) - except that a childless node with
   data "z" hashes to the empty string, so that falsy hashes are exercised;
   harness/c10.py uses the same.  In a collect answer a node without cached
   hash prints as the empty hash (mutant old_truthy only). *)
let str_of_bytes (l : n list) : string = String.concat "" (List.map (fun b -> String.make 1 (Char.chr (int_of_n b))) l)
let bytes_of_str (s : string) : n list = List.init (String.length s) (fun i -> n_of_int (Char.code s.[i]))
let hexs (l : n list) : string = if l = [] then "." else hex_of_bytes l
(* the data of a from_disk.Directory starts with the marker 01 64 3a ("\001d:"): its entries are hashed sorted by
   name, as Directory.compute_hash does (same children in another insertion order = same hash) *)
let is_dir_data (d : n list) : bool = match List.map int_of_n d with 1 :: 100 :: 58 :: _ -> true | _ -> false
let nh (d : n list) (es : ((n list * n list) * n list) list) : n list =
  let es = if is_dir_data d then List.sort (fun ((a, _), _) ((b, _), _) -> compare (List.map int_of_n a) (List.map int_of_n b)) es else es in
  let enc = "D" ^ hexs d ^ "|" ^ String.concat "," (List.map (fun ((nm, kd), kh) -> hexs nm ^ ":" ^ hexs kd ^ ":" ^ hexs kh) es) in
  if hexs d = "7a" && es = [] then [] else bytes_of_str (Digest.string enc)
let kind_of = function "n" -> KNode | "l" -> KLeaf | "d" -> KDir | "c" -> KContent | _ -> failwith "kind"
let nat s = nat_of_int (int_of_string s)
let parse_items s = if s = "." then [] else
  List.map (fun it -> match String.split_on_char '=' it with [k; c] -> (bytes_of_hex k, nat c) | _ -> failwith "item")
    (String.split_on_char '+' s)
let parse_op (s : string) : op =
  match String.split_on_char ',' s with
  | ["N"; k; d] -> ONew (kind_of k, bytes_of_hex d)
  | ["S"; p; k; c] -> OSet (nat p, bytes_of_hex k, nat c)
  | ["D"; p; k] -> ODel (nat p, bytes_of_hex k)
  | ["U"; p; l] -> OUpdate (nat p, parse_items l)
  | ["G"; p; k] -> OGet (nat p, bytes_of_hex k)
  | ["C"; p; k] -> OContains (nat p, bytes_of_hex k)
  | ["H"; x] -> OHash (nat x) | ["F"; x] -> OForce (nat x)
  | ["E"; x] -> OEntries (nat x) | ["M"; x] -> OToModel (nat x)
  | ["L"; x] -> OCollect (nat x) | ["R"; x] -> OReset (nat x)
  | ["W"; x; d] -> OWrite (nat x, bytes_of_hex d)
  | ["I"; x] -> OSwhid (nat x)
  | ["Q"; a; b] -> OEq (nat a, nat b)
  | _ -> failwith "op"
let show_err = function EKey -> "key" | EValue -> "value" | EAttr -> "attr" | EFuel -> "fuel" | EHandle -> "handle"
let show_out (s : heap) (o : out) : string =
  match o with
  | OutUnit -> "u"
  | OutHandle x -> "h" ^ string_of_int (int_of_nat x)
  | OutBool b -> if b then "b1" else "b0"
  | OutHash h -> "x" ^ hexs h
  | OutEntries es -> "e" ^ String.concat "+" (List.map (fun ((nm, kd), kh) -> hexs nm ^ ":" ^ hexs kd ^ ":" ^ hexs kh) es)
  | OutNodes l -> "n" ^ String.concat "," (List.map (fun x ->
        string_of_int (int_of_nat x) ^ ":" ^
        (match nth_error s x with Some nd -> (match cached nd with Some h -> hexs h | None -> ".") | None -> "?")) l)
  | OutErr e -> "!" ^ show_err e
let () = serve (function
  | ["run"; byid; oldt; ops] ->
      let by_id = (byid = "1") in
      let old_truthy = (oldt = "1") in
      let ops = List.map parse_op (String.split_on_char ';' ops) in
      let (_, outs) = List.fold_left (fun (s, acc) o ->
          let (s', r) = step nh by_id old_truthy s o in (s', show_out s' r :: acc)) ([], []) ops in
      "ok " ^ String.concat ";" (List.rev outs)
  | _ -> "err bad_request")
