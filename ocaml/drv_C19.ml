(* C19 driver.  entries = e|e|... or "." ; e = namehex:type:targethex:perms  (type f|d|r, perms decimal; the C02 wire format)
     rep <entries> <id hex|.> <raw hex|->  -> ok <flag 0|1> <entries> <id hex> <raw hex|-> <check 0|1>  |  err ValueError | err OutOfFuel
     old <entries> <id hex|.> <raw hex|->  -> the same for the code before the fix (unconditional renaming)
     man <entries>                         -> ok <dir_manifest hex>      (C02's manifest of the entries as given) *)
let parse_entry (s : string) : entry =
  match String.split_on_char ':' s with
  | [n; t; tg; p] ->
      { e_name = bytes_of_hex n;
        e_type = (match t with "f" -> EFile | "d" -> EDir | _ -> ERev);
        e_target = bytes_of_hex tg; e_perms = n_of_decimal p }
  | _ -> failwith "entry"
let parse_entries s = if s = "." then [] else List.map parse_entry (String.split_on_char '|' s)
let show_entry (e : entry) =
  hex_of_bytes e.e_name ^ ":" ^ (match e.e_type with EFile -> "f" | EDir -> "d" | ERev -> "r") ^ ":"
  ^ hex_of_bytes e.e_target ^ ":" ^ decimal_of_n e.e_perms
let show_entries es = if es = [] then "." else String.concat "|" (List.map show_entry es)
let show_result r =
  match r with
  | RepOk (f, d) ->
      "ok " ^ (if f then "1" else "0") ^ " " ^ show_entries d.o_entries ^ " " ^ hex_of_bytes d.o_id ^ " "
      ^ hex_of_opt_bytes d.o_raw ^ " " ^ (if check sha1 d then "1" else "0")
  | RepValueError -> "err ValueError"
  | RepOutOfFuel -> "err OutOfFuel"
let () = serve (function
  | ["rep"; e; i; r] -> show_result (repair sha1 (parse_entries e) (bytes_of_hex i) (opt_bytes_of_hex r))
  | ["old"; e; i; r] -> show_result (repair_old sha1 (parse_entries e) (bytes_of_hex i) (opt_bytes_of_hex r))
  | ["man"; e] -> "ok " ^ hex_of_bytes (dir_manifest (parse_entries e))
  | _ -> "err bad_request")
