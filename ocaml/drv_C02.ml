(* C02 driver.  entries = e|e|... or "." ; e = namehex:type:targethex:perms  (type f|d|r, perms decimal)
     dir <entries>      -> ok <manifest hex> <sha1 hex>  |  err ValueError
     git <entries>      -> ok <git_tree_object hex>                 (independent encoder, git's ordering rule)
     dec <manifest hex> -> ok perms:namehex:targethex|...  | none   (independent decoder)
     cmp <entries> <raw manifest hex | -> -> ok <sha1 hex>        (compute_hash of a Directory with that raw_manifest) *)
let parse_entry (s : string) : entry =
  match String.split_on_char ':' s with
  | [n; t; tg; p] ->
      { e_name = bytes_of_hex n;
        e_type = (match t with "f" -> EFile | "d" -> EDir | _ -> ERev);
        e_target = bytes_of_hex tg; e_perms = n_of_decimal p }
  | _ -> failwith "entry"
let parse_entries s = if s = "." then [] else List.map parse_entry (String.split_on_char '|' s)
let show_triple ((p, n), t) = decimal_of_n p ^ ":" ^ hex_of_bytes n ^ ":" ^ hex_of_bytes t
let () = serve (function
  | ["dir"; e] ->
      (match mk_dir_manifest (parse_entries e) with
       | DirOk m -> "ok " ^ hex_of_bytes m ^ " " ^ hex_of_bytes (sha1 m)
       | DirValueError -> "err ValueError")
  | ["git"; e] -> "ok " ^ hex_of_bytes (git_tree_object (parse_entries e))
  | ["dec"; m] ->
      (match decode_tree_object (bytes_of_hex m) with
       | Some ts -> "ok " ^ (if ts = [] then "." else String.concat "|" (List.map show_triple ts))
       | None -> "none")
  | ["cmp"; e; raw] ->
      let r = if raw = "-" then None else Some (bytes_of_hex raw) in
      "ok " ^ hex_of_bytes (dir_compute_hash sha1 { d_entries = parse_entries e; d_raw_manifest = r })
  | _ -> "err bad_request")
