(* C20 driver.  Requests:
     topo fifo|lifo <log>          -> ok id,id,...  | err keyerror | err fuel
     run <log> <trace>             -> ok true|false      (is_model_run: trace inclusion)
     chk <log> <out-ids>           -> ok true|false      (is_topo_order on the revisions named by out-ids)
   <log> = rev|rev|...  (or "." for the empty log), rev = id:p,p,...  (decimal ids) *)
let parse_rev (s : string) : rev =
  match String.split_on_char ':' s with
  | [i] -> (n_of_int (int_of_string i), [])
  | [i; ps] -> (n_of_int (int_of_string i), List.map (fun p -> n_of_int (int_of_string p)) (split_on ',' ps))
  | _ -> failwith "rev"
let parse_log s = if s = "." then [] else List.map parse_rev (String.split_on_char '|' s)
let parse_ids s = if s = "." then [] else List.map (fun p -> n_of_int (int_of_string p)) (String.split_on_char ',' s)
let show_ids l = if l = [] then "." else String.concat "," (List.map (fun r -> string_of_int (int_of_n (fst r))) l)
let () = serve (function
  | ["topo"; pk; l] ->
      let pick = if pk = "lifo" then lifo else fifo in
      (match toposort pick (parse_log l) with
       | TopoOk out -> "ok " ^ show_ids out
       | TopoKeyError -> "err keyerror"
       | TopoOutOfFuel -> "err fuel")
  | ["run"; l; t] -> if is_model_run (parse_log l) (parse_ids t) then "ok true" else "ok false"
  | ["chk"; l; t] ->
      let log = parse_log l in
      let out = List.filter_map (fun i -> List.find_opt (fun r -> fst r = i) log) (parse_ids t) in
      if List.length out = List.length (parse_ids t) && is_topo_order log out then "ok true" else "ok false"
  | _ -> "err bad_request")
