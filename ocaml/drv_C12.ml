(* C12 driver.  Values travel in a prefix notation (one token, no spaces):
     N T F  i<dec>;  b<hex>;  s<6 hex digits per code point>;  d<us>,<off_us>;
     ( v* )  [ v* ]  { (k v)* }  < (k v)* >(ImmutableDict)  e<A-D><str>;  w<c|x><tag>,<hexid>;
     O<Class>: (k<name>= v)* .
   Requests:
     new <Class> <id> <kwargs-dict>          -> ok <object | !Error>
     rt  <Class> <id> <object>               -> ok <construct> <to_dict> <from_dict> <caller dict after> <to_dict again>
     fd|fdold <Class> <id> <origin-id> <v>   -> ok <from_dict> <caller value after> <to_dict of the result>
     fdp <Class> <id> <origin-id> <dateparse answer> <v>   -> the same, dateutil's answer given as an oracle
     schema <Class>                          -> ok name|type|default|elided ...
     enum <A-D>                              -> ok <member values>
   <id> = hex of the id the oracle answers with, or !Error if computing it raises. *)
let text_of_string (s : string) : n list = List.init (String.length s) (fun i -> n_of_int (Char.code s.[i]))
let string_of_text (t : n list) : string = String.concat "" (List.map (fun c -> String.make 1 (Char.chr (int_of_n c))) t)
let hex6_of_text (t : n list) : string = String.concat "" (List.map (fun c -> Printf.sprintf "%06x" (int_of_n c)) t)
let text_of_hex6 (s : string) : n list =
  List.init (String.length s / 6) (fun i -> n_of_int (int_of_string ("0x" ^ String.sub s (6 * i) 6)))
let hexb (l : n list) : string = String.concat "" (List.map (fun b -> Printf.sprintf "%02x" (int_of_n b)) l)
let unhexb (s : string) : n list =
  List.init (String.length s / 2) (fun i -> n_of_int (int_of_string ("0x" ^ String.sub s (2 * i) 2)))

let class_table = [
  "Person", CPerson; "Timestamp", CTimestamp; "TimestampWithTimezone", CTimestampWithTimezone; "Origin", COrigin;
  "OriginVisit", COriginVisit; "OriginVisitStatus", COriginVisitStatus; "SnapshotBranch", CSnapshotBranch;
  "Snapshot", CSnapshot; "Release", CRelease; "Revision", CRevision; "DirectoryEntry", CDirectoryEntry;
  "Directory", CDirectory; "Content", CContent; "SkippedContent", CSkippedContent;
  "MetadataAuthority", CMetadataAuthority; "MetadataFetcher", CMetadataFetcher;
  "RawExtrinsicMetadata", CRawExtrinsicMetadata; "ExtID", CExtID ]
let class_of_name s = List.assoc s class_table
let name_of_class c = fst (List.find (fun (_, c') -> c' = c) class_table)
let enum_table = ['A', ESnapshotTarget; 'B', EReleaseTarget; 'C', ERevisionType; 'D', EAuthorityType]
let enum_of_code ch = List.assoc ch enum_table
let code_of_enum e = fst (List.find (fun (_, e') -> e' = e) enum_table)

let rec show (v : pyval) : string =
  match v with
  | VNone -> "N"
  | VBool b -> if b then "T" else "F"
  | VInt z -> "i" ^ decimal_of_z z ^ ";"
  | VBytes b -> "b" ^ hexb b ^ ";"
  | VStr s -> "s" ^ hex6_of_text s ^ ";"
  | VDate (us, off) -> "d" ^ decimal_of_z us ^ "," ^ decimal_of_z off ^ ";"
  | VTuple l -> "(" ^ String.concat "" (List.map show l) ^ ")"
  | VList l -> "[" ^ String.concat "" (List.map show l) ^ "]"
  | VDict l -> "{" ^ String.concat "" (List.map (fun (k, x) -> show k ^ show x) l) ^ "}"
  | VIDict l -> "<" ^ String.concat "" (List.map (fun (k, x) -> show k ^ show x) l) ^ ">"
  | VEnum (e, s) -> "e" ^ String.make 1 (code_of_enum e) ^ hex6_of_text s ^ ";"
  | VSwhid (k, t, i) -> "w" ^ (match k with Core -> "c" | Extended -> "x") ^ hex6_of_text t ^ "," ^ hexb i ^ ";"
  | VObj (c, fs) ->
      "O" ^ name_of_class c ^ ":" ^ String.concat "" (List.map (fun (n, x) -> "k" ^ string_of_text n ^ "=" ^ show x) fs) ^ "."

let parse (w : string) : pyval =
  let pos = ref 0 in
  let until ch = let j = String.index_from w !pos ch in let t = String.sub w !pos (j - !pos) in pos := j + 1; t in
  let rec value () : pyval =
    let c = w.[!pos] in
    incr pos;
    match c with
    | 'N' -> VNone
    | 'T' -> VBool true
    | 'F' -> VBool false
    | 'i' -> VInt (z_of_decimal (until ';'))
    | 'b' -> VBytes (unhexb (until ';'))
    | 's' -> VStr (text_of_hex6 (until ';'))
    | 'd' -> let t = until ';' in
             (match String.split_on_char ',' t with
              | [a; b] -> VDate (z_of_decimal a, z_of_decimal b)
              | _ -> failwith "date")
    | '(' -> let l = seq ')' in VTuple l
    | '[' -> let l = seq ']' in VList l
    | '{' -> let l = pairs '}' in VDict l
    | '<' -> let l = pairs '>' in VIDict l
    | 'e' -> let code = w.[!pos] in incr pos; VEnum (enum_of_code code, text_of_hex6 (until ';'))
    | 'w' -> let k = w.[!pos] in incr pos;
             let t = until ';' in
             (match String.split_on_char ',' t with
              | [a; b] -> VSwhid ((if k = 'c' then Core else Extended), text_of_hex6 a, unhexb b)
              | _ -> failwith "swhid")
    | 'O' -> let cn = until ':' in
             let rec flds acc =
               if w.[!pos] = '.' then (incr pos; List.rev acc)
               else begin
                 if w.[!pos] <> 'k' then failwith "field";
                 incr pos;
                 let n = until '=' in
                 let x = value () in
                 flds ((text_of_string n, x) :: acc)
               end in
             VObj (class_of_name cn, flds [])
    | _ -> failwith ("bad wire tag " ^ String.make 1 c)
  and seq close = if w.[!pos] = close then (incr pos; []) else (let x = value () in x :: seq close)
  and pairs close =
    if w.[!pos] = close then (incr pos; [])
    else (let k = value () in let x = value () in (k, x) :: pairs close) in
  let v = value () in
  if !pos <> String.length w then failwith "trailing wire data";
  v

let show_err (e : err) : string =
  match e with
  | TypeError -> "!TypeError" | ValueError -> "!ValueError" | KeyError -> "!KeyError"
  | AssertionError -> "!AssertionError" | ValidationError -> "!ValidationError" | AttributeError -> "!AttributeError"
let err_of_string (s : string) : err =
  match s with
  | "!TypeError" -> TypeError | "!ValueError" -> ValueError | "!KeyError" -> KeyError
  | "!AssertionError" -> AssertionError | "!ValidationError" -> ValidationError | "!AttributeError" -> AttributeError
  | _ -> ValueError
let show_res (r : pyval result) : string = match r with Ok v -> show v | Err e -> show_err e
let oracle_id (s : string) : n list result =
  if String.length s > 0 && s.[0] = '!' then Err (err_of_string s) else Ok (unhexb s)

let rec show_ty (t : ty) : string =
  match t with
  | TBytes -> "bytes" | TStr -> "str" | TInt -> "int" | TBool -> "bool" | TDate -> "datetime"
  | TAny -> "Any" | TObject -> "object"
  | TOpt t' -> "Optional[" ^ show_ty t' ^ "]"
  | TTupleOf t' -> "Tuple[" ^ show_ty t' ^ ",...]"
  | TPairBytes -> "Tuple[bytes,bytes]"
  | TObj c -> name_of_class c
  | TEnum e -> (match e with ESnapshotTarget -> "SnapshotTargetType" | EReleaseTarget -> "ReleaseTargetType"
                           | ERevisionType -> "RevisionType" | EAuthorityType -> "MetadataAuthorityType")
  | TIDict (k, v) -> "ImmutableDict[" ^ show_ty k ^ "," ^ show_ty v ^ "]"
  | TSwhid k -> (match k with Core -> "CoreSWHID" | Extended -> "ExtendedSWHID")
  | TCallable -> "Callable[[],bytes]"

let () = serve (function
  | ["new"; cn; oid; w] ->
      let c = class_of_name cn in
      (match parse w with
       | VDict kw -> "ok " ^ show_res (construct_x (oracle_id oid) (oracle_id oid) c kw)
       | _ -> "err bad_request")
  | ["rt"; cn; oid; w] ->
      let c = class_of_name cn in
      (match parse w with
       | VObj (c', fs) when c' = c ->
           let o = VObj (c, fs) in
           let r0 = construct_x (oracle_id oid) (oracle_id oid) c (as_kwargs fs) in
           let d = to_dict_x o in
           let (r, after) = from_dict_x (oracle_id oid) (oracle_id oid) c d in
           let d2 = (match r with Ok o2 -> show (to_dict_x o2) | Err e -> show_err e) in
           "ok " ^ show_res r0 ^ " " ^ show d ^ " " ^ show_res r ^ " " ^ show after ^ " " ^ d2
       | _ -> "err bad_request")
  | ["fdp"; cn; oid; orig; dpw; w] ->
      (* dpw: what dateutil.parser.parse answers for the textual ctime of this dictionary (a value or !Error) *)
      let v = parse w in
      let dp = if String.length dpw > 0 && dpw.[0] = '!' then Err (err_of_string dpw) else Ok (parse dpw) in
      let (r, after) =
        if cn = "BaseContent" then fd_BaseContent_xd (oracle_id oid) dp v
        else from_dict_xd (oracle_id oid) (oracle_id orig) dp (class_of_name cn) v in
      let d1 = (match r with Ok o -> show (to_dict_x o) | Err e -> show_err e) in
      "ok " ^ show_res r ^ " " ^ show after ^ " " ^ d1
  | [op; cn; oid; orig; w] when op = "fd" || op = "fdold" ->
      let v = parse w in
      let (r, after) =
        if cn = "BaseContent" then fd_BaseContent_x (oracle_id oid) v
        else if op = "fd" then from_dict_x (oracle_id oid) (oracle_id orig) (class_of_name cn) v
        else from_dict_old_x (oracle_id oid) (oracle_id orig) (class_of_name cn) v in
      let d1 = (match r with Ok o -> show (to_dict_x o) | Err e -> show_err e) in
      "ok " ^ show_res r ^ " " ^ show after ^ " " ^ d1
  | ["schema"; cn] ->
      let c = class_of_name cn in
      let el = elided c in
      "ok " ^ String.concat " " (List.map (fun f ->
        string_of_text f.fname ^ "|" ^ show_ty f.fty ^ "|"
        ^ (match f.fdefault with None -> "-" | Some v -> show v) ^ "|"
        ^ (if List.mem f.fname el then "1" else "0")) (schema c))
  | ["enum"; code] ->
      "ok " ^ String.concat " " (List.map hex6_of_text (members (enum_of_code code.[0])))
  | _ -> "err bad_request")
