(* C15 driver.
     extid <type> <extid> <tty:tid> <version> <ptype|-> <payload|->
         -> ok <manifest hex> <sha1 hex> | err ValueError
     pextid <manifest hex> -> ok <type> <version> <extid> <target text> <ptype|-> <payload|-> <tty:tid | none> | none
     emd <tty:tid> <epoch_us> <offset_us> <authority d|f|r> <url> <name> <version> <format> <metadata>
         <origin|-> <visit|-> <snapshot ty:id|-> <release|-> <revision|-> <path|-> <directory|->
         -> ok <manifest hex> <sha1 hex> <normalised epoch_us> <normalised offset_us> | err ValueError
     emdin <n|o> <wall-clock us> <tty:tid> <authority> ... (as emd, without the two date words) -> err ValueError
     pemd <manifest hex> -> ok <target text> <second> <authority word> <url> <name> <version> <format> <k:v,...|.> <metadata> <tty:tid | none> | none
     authwords -> ok <word>,<word>,<word> *)
let cty_of = function "snp" -> CSnp | "rel" -> CRel | "rev" -> CRev | "dir" -> CDir | "cnt" -> CCnt | _ -> failwith "cty"
let ety_of = function "ori" -> EOri | "emd" -> EEmd | s -> ECore (cty_of s)
let str_of_cty = function CSnp -> "snp" | CRel -> "rel" | CRev -> "rev" | CDir -> "dir" | CCnt -> "cnt"
let str_of_ety = function EOri -> "ori" | EEmd -> "emd" | ECore c -> str_of_cty c
let cswhid_of (s : string) : cswhid =
  match String.split_on_char ':' s with [t; i] -> { cs_ty = cty_of t; cs_id = bytes_of_hex i } | _ -> failwith "cswhid"
let eswhid_of (s : string) : eswhid =
  match String.split_on_char ':' s with [t; i] -> { es_ty = ety_of t; es_id = bytes_of_hex i } | _ -> failwith "eswhid"
let opt f s = if s = "-" then None else Some (f s)
let auth_of = function "d" -> DepositClient | "f" -> Forge | "r" -> Registry | _ -> failwith "authority"
let show_ext (o : eswhid option) = match o with Some s -> str_of_ety s.es_ty ^ ":" ^ hex_of_bytes s.es_id | None -> "none"
let show_core (o : cswhid option) = match o with Some s -> str_of_cty s.cs_ty ^ ":" ^ hex_of_bytes s.cs_id | None -> "none"
let () = serve (function
  | ["extid"; ty; x; tg; ver; pt; p] ->
      let e = { x_type = bytes_of_hex ty; x_extid = bytes_of_hex x; x_target = cswhid_of tg; x_version = z_of_decimal ver;
                x_payload_type = opt_bytes_of_hex pt; x_payload = opt_bytes_of_hex p } in
      (match mk_extid e with
       | Err ValueError -> "err ValueError"
       | Ok e' -> (match extid_git_object e' with
                   | Ok m -> "ok " ^ hex_of_bytes m ^ " " ^ hex_of_bytes (sha1 m)
                   | Err ValueError -> "err ValueError"))
  | ["pextid"; m] ->
      (match parse_extid (bytes_of_hex m) with
       | Some f -> String.concat " " ["ok"; hex_of_bytes f.xf_type; decimal_of_z f.xf_version; hex_of_bytes f.xf_extid;
                                      hex_of_bytes f.xf_target; hex_of_opt_bytes f.xf_payload_type;
                                      hex_of_opt_bytes f.xf_payload; show_core (parse_core f.xf_target)]
       | None -> "none")
  | ["emd"; tg; us; off; au; url; name; ver; fmt; md; origin; visit; snp; rel; rev; path; dir] ->
      let m = { m_target = eswhid_of tg; m_date = { dt_us = z_of_decimal us; dt_off = z_of_decimal off };
                m_authority = { au_type = auth_of au; au_url = bytes_of_hex url };
                m_fetcher = { fe_name = bytes_of_hex name; fe_version = bytes_of_hex ver };
                m_format = bytes_of_hex fmt; m_metadata = bytes_of_hex md;
                m_origin = opt_bytes_of_hex origin; m_visit = opt z_of_decimal visit;
                m_snapshot = opt cswhid_of snp; m_release = opt cswhid_of rel; m_revision = opt cswhid_of rev;
                m_path = opt_bytes_of_hex path; m_directory = opt cswhid_of dir } in
      (match mk_emd m with
       | Err ValueError -> "err ValueError"
       | Ok a -> let man = emd_git_object a in
                 String.concat " " ["ok"; hex_of_bytes man; hex_of_bytes (sha1 man);
                                    decimal_of_z a.m_date.dt_us; decimal_of_z a.m_date.dt_off])
  | ["emdin"; k; wall; tg; au; url; name; ver; fmt; md; origin; visit; snp; rel; rev; path; dir] ->
      (* a discovery_date without UTC offset: k = n (tzinfo None) | o (tzinfo gives no offset); wall = the written fields *)
      let m = { m_target = eswhid_of tg; m_date = { dt_us = Z0; dt_off = Z0 };
                m_authority = { au_type = auth_of au; au_url = bytes_of_hex url };
                m_fetcher = { fe_name = bytes_of_hex name; fe_version = bytes_of_hex ver };
                m_format = bytes_of_hex fmt; m_metadata = bytes_of_hex md;
                m_origin = opt_bytes_of_hex origin; m_visit = opt z_of_decimal visit;
                m_snapshot = opt cswhid_of snp; m_release = opt cswhid_of rel; m_revision = opt cswhid_of rev;
                m_path = opt_bytes_of_hex path; m_directory = opt cswhid_of dir } in
      let d = if k = "n" then DNaive (z_of_decimal wall) else DOffsetless (z_of_decimal wall) in
      (match mk_emd_in m d with
       | Err ValueError -> "err ValueError"
       | Ok a -> "ok " ^ hex_of_bytes (emd_git_object a))
  | ["pemd"; m] ->
      (match parse_emd (bytes_of_hex m) with
       | Some f ->
           let ctx = if f.ef_context = [] then "." else
             String.concat "," (List.map (fun (k, v) -> hex_of_bytes k ^ ":" ^ hex_of_bytes v) f.ef_context) in
           String.concat " " ["ok"; hex_of_bytes f.ef_target; decimal_of_z f.ef_second; hex_of_bytes (auth_word f.ef_auth_type);
                              hex_of_bytes f.ef_auth_url; hex_of_bytes f.ef_fetcher_name; hex_of_bytes f.ef_fetcher_version;
                              hex_of_bytes f.ef_format; ctx; hex_of_bytes f.ef_metadata; show_ext (parse_ext f.ef_target)]
       | None -> "none")
  | ["authwords"] -> "ok " ^ String.concat "," (List.map (fun t -> hex_of_bytes (auth_word t)) all_auth)
  | _ -> "err bad_request")
