(* C01 driver.  Byte strings are hex ("." = empty).  The hash oracle is one of the
   two defined in the model: sym (Hsym: the "digest" is  algo ":" fed) or
   exec (Hexec: real SHA-1 for "sha1", symbolic elsewhere).

     run <sym|exec> <routes> <names> <length|-> <chunks> <sched> <maxlen|->
         routes = comma-separated route codes (below); names = comma-separated hex or "~" (no name);
         chunks = hex|hex|... or "~" (no chunk); the data of the case is concat chunks;
         sched = comma-separated short-read schedule or "~"
       -> ok code=RES;code=RES;...    RES = E:<error> | O:<length|->:key=VIEW,key=VIEW,...
          VIEW = hex        the value itself
               | hex+       the value is  hex ++ data   (model function [view], proved sound)
     script <sym|exec> <new|old> <op>/<op>/...
         op = n:<names>:<length|->  |  u:<var>:<chunk>  |  c:<var>  |  d:<var>
       -> ok EV;EV;...   EV = done | E:<error> | D:<length|->:key=hex,key=hex,...
     hgd <sym|exec> <type> <base algo> <data>      hashutil.hash_git_data
       -> ok hg=RES     (RES as above, key "sha1_git") *)
let err_name = function
  | ValueError -> "ValueError" | TypeError -> "TypeError" | KeyError -> "KeyError"
  | AttributeError -> "AttributeError" | MissingData -> "MissingData" | OtherException -> "Other(Exception)"
  | OutOfFuel -> "OutOfFuel" | ReaderExhausted -> "ReaderExhausted" | BadHandle -> "BadHandle"
let route_of = function
  | "fd" -> RFromData | "ff" -> RFromFile | "fp" -> RFromPath | "ch" -> RChunked
  | "hg" -> RHashGitData | "cg" -> RContentGitObject
  | "mc" -> RModelContent | "ms" -> RModelSkipped
  | "db" -> RDiskBytes | "df" -> RDiskFile | "dl" -> RDiskSymlink | "do" -> RDiskOther
  | "cf" -> RCliFile | "cs" -> RCliStdin
  | _ -> failwith "route"
let oracle_of = function "sym" -> hsym | "exec" -> hexec | _ -> failwith "oracle"
let list_of (sep : char) (f : string -> 'a) (s : string) : 'a list =
  if s = "~" then [] else List.map f (String.split_on_char sep s)
let opt_n s = if s = "-" then None else Some (n_of_decimal s)
let show_opt_n = function None -> "-" | Some x -> decimal_of_n x
let nat_of_dec s = nat_of_int (int_of_string s)
let show_view data v =
  let (p, tail) = view data v in hex_of_bytes p ^ (if tail then "+" else "")
let show_dict (show : n list -> string) ((d, l) : digest_t) =
  show_opt_n l ^ ":" ^ String.concat "," (List.map (fun (k, v) -> hex_of_bytes k ^ "=" ^ show v) d)
let parse_op (s : string) : op =
  match String.split_on_char ':' s with
  | ["n"; names; len] -> ONew (list_of ',' bytes_of_hex names, opt_n len)
  | ["u"; v; chunk] -> OUpdate (nat_of_dec v, bytes_of_hex chunk)
  | ["c"; v] -> OCopy (nat_of_dec v)
  | ["d"; v] -> ODigest (nat_of_dec v)
  | _ -> failwith "op"
let () = serve (function
  | ["run"; o; routes; names; len; chunks; sched; maxlen] ->
      let i = { i_names = list_of ',' bytes_of_hex names; i_length = opt_n len;
                i_chunks = list_of '|' bytes_of_hex chunks; i_sched = list_of ',' nat_of_dec sched;
                i_maxlen = opt_n maxlen } in
      let data = i_data i in
      let h = oracle_of o in
      "ok " ^ String.concat ";" (List.map (fun code ->
        code ^ "=" ^ (match run_route h (route_of code) i with
                      | Ok d -> "O:" ^ show_dict (show_view data) d
                      | Err e -> "E:" ^ err_name e)) (String.split_on_char ',' routes))
  | ["script"; o; variant; ops] ->
      let fs = (match variant with "new" -> from_state_new | "old" -> from_state_old | _ -> failwith "variant") in
      let evs = run_script (oracle_of o) fs [] [] (list_of '/' parse_op ops) in
      "ok " ^ String.concat ";" (List.map (function
        | EvDone -> "done"
        | EvErr e -> "E:" ^ err_name e
        | EvDigest d -> "D:" ^ show_dict hex_of_bytes d) evs)
  | ["hgd"; o; ty; base; data] ->
      (* hash_git_data(data, type, base): same answer format as a one-route run *)
      let d = bytes_of_hex data in
      "ok hg=" ^ (match hash_git_data (oracle_of o) d (bytes_of_hex ty) (bytes_of_hex base) with
                  | Ok v -> "O:-:" ^ hex_of_bytes (bytes_of_hex "736861315f676974") ^ "=" ^ show_view d v
                  | Err e -> "E:" ^ err_name e)
  | _ -> "err bad_request")
