(* C04 driver.
     rel <name> <message|-> <target|-> <ttype c|d|v|r|s> <author fullname|-> <date s:us:offhex|-> [<raw manifest>]
         -> ok <manifest hex> <sha1 hex> [<id = rel_compute_hash sha1 r, when a raw manifest is given>] | err ValueError | err TypeError
     ptag <manifest hex> -> ok <object> <type> <tag> <tagger|-> <message|-> | none *)
let parse_date (s : string) : tstz option =
  if s = "-" then None else
  match String.split_on_char ':' s with
  | [sec; us; off] -> Some { ts = { seconds = z_of_decimal sec; microseconds = z_of_decimal us }; offset_bytes = bytes_of_hex off }
  | _ -> failwith "date"
let parse_person (s : string) : person option =
  if s = "-" then None else Some { fullname = bytes_of_hex s; p_name = None; p_email = None }
let rel name msg tgt tt au dt raw =
  let r = { r_name = bytes_of_hex name; r_message = opt_bytes_of_hex msg; r_target = opt_bytes_of_hex tgt;
            r_ttype = (match tt with "c" -> RContent | "d" -> RDirectory | "v" -> RRevision | "r" -> RRelease | _ -> RSnapshot);
            r_synthetic = false; r_author = parse_person au; r_date = parse_date dt; r_metadata = None;
            r_raw_manifest = opt_bytes_of_hex raw } in
  if not (release_valid r) then "err ValueError" else
  (match release_git_object r with
   | MOk m -> "ok " ^ hex_of_bytes m ^ " " ^ hex_of_bytes (sha1 m) ^
              (if raw = "-" then "" else " " ^ hex_of_opt_bytes (rel_compute_hash sha1 r))
   | MTypeError -> "err TypeError"
   | MValueError -> "err ValueError")
let () = serve (function
  | ["rel"; name; msg; tgt; tt; au; dt] -> rel name msg tgt tt au dt "-"
  | ["rel"; name; msg; tgt; tt; au; dt; raw] -> rel name msg tgt tt au dt raw
  | ["ptag"; m] ->
      (match parse_tag (bytes_of_hex m) with
       | Some f -> String.concat " " ["ok"; hex_of_bytes f.t_object; hex_of_bytes f.t_type; hex_of_bytes f.t_tag;
                                      hex_of_opt_bytes f.t_tagger; hex_of_opt_bytes f.t_message]
       | None -> "none")
  | _ -> "err bad_request")
