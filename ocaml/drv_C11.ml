(* C11 driver.  (De)serialisation only.
   Values  v ::= N | A<hex> | T(v;v;...) | O<clshex>(v;...) | I<handle> | R<handle>
   Store   cells joined by "|" ("." = empty): D(<keyhex>=v;...) | L(v;...) | F(<keyhex>=v;...)
           F = an instance of a dict subclass whose __missing__ inserts (defaultdict, ...)
   Args    (v;v;...)
   Steps   joined by "|" ("." = none):
           set:h:khex:v del:h:khex clear:h app:h:v idx:h:i:v pop:h      (caller mutations)
           setattr:namehex delattr:namehex setitem:khex delitem:khex    (attempts on the object)
           copypop:khex                                                 (object.copy_pop(key), result dropped)
           read:<fieldhex or ->:contains|get|getitem:khex   read:<fieldhex or ->:iter|len|items|todict|hash|eq
                                                                        (read-only access to the object / its field)
   Requests
     run new|old|popinplace <fuel> ctor|fromdict <clshex> <store> <args> <steps> <watch>
         -> ok <obs> <e>/<obs> ... wb:<obs> ... wa:<obs> ...   |  err <E>
            <watch> = (v;v;...): values observed before the construction (wb) and after the whole script (wa)
            <obs> = <content>,<to_dict>,<hashkey or U>,<id_ok 0|1> ; <e> = "-" (a caller mutation) or the error raised
     twins new|old <fuel> <clshex> <store> <args1> <args2>
         -> ok <eq12 0|1> <eq21 0|1> <hashkey1 or U> <hashkey2 or U> | err <E>
     tables -> ok <eq_hash_coherent 0|1> <arg_kinds_coherent 0|1>
     kinds  -> ok cls.field=kind[+rebuild],...      (the model's ARG_KINDS seen through arg_kind, for every field)
   Resolved values: N | A<hex> | T(..) tuple | L(..) list | M{khex=v;..} ImmutableDict | D{..} dict | O<clshex>(..) | OUT | BAD *)

let hex_of_atom (l : n list) : string = String.concat "" (List.map (fun b -> Printf.sprintf "%02x" (int_of_n b)) l)
let atom_of_hex (s : string) : n list =
  List.init (String.length s / 2) (fun i -> n_of_int (int_of_string ("0x" ^ String.sub s (2 * i) 2)))

(* ---- parsing of values *)
let parse_value (s : string) : pyval =
  let pos = ref 0 in
  let peek () = if !pos < String.length s then s.[!pos] else '\000' in
  let next () = let c = peek () in incr pos; c in
  let is_hex c = (c >= '0' && c <= '9') || (c >= 'a' && c <= 'f') in
  let is_digit c = c >= '0' && c <= '9' in
  let take p = let st = !pos in while p (peek ()) do incr pos done; String.sub s st (!pos - st) in
  let rec value () =
    match next () with
    | 'N' -> VNone
    | 'A' -> VAtom (atom_of_hex (take is_hex))
    | 'I' -> VIDict (nat_of_int (int_of_string (take is_digit)))
    | 'R' -> VRef (nat_of_int (int_of_string (take is_digit)))
    | 'T' -> VTuple (plist ())
    | 'O' -> let c = atom_of_hex (take is_hex) in VObj (c, plist ())
    | _ -> failwith "value"
  and plist () =
    if next () <> '(' then failwith "(";
    if peek () = ')' then (incr pos; []) else begin
      let acc = ref [value ()] in
      while peek () = ';' do incr pos; acc := value () :: !acc done;
      if next () <> ')' then failwith ")";
      List.rev !acc
    end in
  let v = value () in
  if !pos <> String.length s then failwith "trailing"; v

let parse_args (s : string) : pyval list =
  match parse_value ("T" ^ s) with VTuple l -> l | _ -> failwith "args"

(* split "a;b;c" at top level (no nesting inside dict cells beyond values' own parentheses) *)
let split_top (c : char) (s : string) : string list =
  let depth = ref 0 and st = ref 0 and acc = ref [] in
  String.iteri (fun i ch ->
    if ch = '(' then incr depth else if ch = ')' then decr depth
    else if ch = c && !depth = 0 then (acc := String.sub s !st (i - !st) :: !acc; st := i + 1)) s;
  acc := String.sub s !st (String.length s - !st) :: !acc;
  List.rev !acc

let parse_cell (s : string) : cell =
  let inner = String.sub s 2 (String.length s - 3) in
  match s.[0] with
  | 'L' -> (match parse_value ("T(" ^ inner ^ ")") with VTuple l -> PyList l | _ -> failwith "cell")
  | 'D' | 'F' ->
      let fac = (s.[0] = 'F') in
      if inner = "" then PyDict (fac, []) else
      PyDict (fac, List.map (fun kv ->
        let i = String.index kv '=' in
        (atom_of_hex (String.sub kv 0 i), parse_value (String.sub kv (i + 1) (String.length kv - i - 1))))
        (split_top ';' inner))
  | _ -> failwith "cell"
let parse_store (s : string) : cell list = if s = "." then [] else List.map parse_cell (String.split_on_char '|' s)

let parse_step (s : string) : step =
  let h x = nat_of_int (int_of_string x) in
  match String.split_on_char ':' s with
  | ["set"; a; k; v] -> SMut (MSetItem (h a, atom_of_hex k, parse_value v))
  | ["del"; a; k] -> SMut (MDelItem (h a, atom_of_hex k))
  | ["clear"; a] -> SMut (MClear (h a))
  | ["app"; a; v] -> SMut (MAppend (h a, parse_value v))
  | ["idx"; a; i; v] -> SMut (MSetIndex (h a, h i, parse_value v))
  | ["pop"; a] -> SMut (MPop (h a))
  | ["setattr"; f] -> SChan (CSetAttr (atom_of_hex f, VNone))
  | ["delattr"; f] -> SChan (CDelAttr (atom_of_hex f))
  | ["setitem"; k] -> SChan (CSetItem (atom_of_hex k, VNone))
  | ["delitem"; k] -> SChan (CDelItem (atom_of_hex k))
  | ["copypop"; k] -> SCopyPop (atom_of_hex k)
  | ["read"; f; kind; k] ->
      let fld = if f = "-" then None else Some (atom_of_hex f) in
      let a = atom_of_hex k in
      SRead (fld, (match kind with "contains" -> RdContains a | "get" -> RdGet a | "getitem" -> RdGetItem a | _ -> failwith "read"))
  | ["read"; f; kind] ->
      let fld = if f = "-" then None else Some (atom_of_hex f) in
      SRead (fld, (match kind with "iter" -> RdIter | "len" -> RdLen | "items" -> RdItems | "todict" -> RdToDict
                                   | "hash" -> RdHash | "eq" -> RdEq | _ -> failwith "read"))
  | _ -> failwith "step"
let parse_steps (s : string) : step list = if s = "." then [] else List.map parse_step (String.split_on_char '|' s)

(* ---- printing of resolved values *)
let rec show (r : rval) : string =
  match r with
  | RNone -> "N"
  | RAtom a -> "A" ^ hex_of_atom a
  | RSeq (m, l) -> (if m then "L(" else "T(") ^ String.concat ";" (List.map show l) ^ ")"
  | RMap (m, it) ->
      (if m then "D{" else "M{") ^ String.concat ";" (List.map (fun (k, v) -> hex_of_atom k ^ "=" ^ show v) it) ^ "}"
  | RObj (c, l) -> "O" ^ hex_of_atom c ^ "(" ^ String.concat ";" (List.map show l) ^ ")"
  | ROut -> "OUT"
  | RBad -> "BAD"
let show_key (o : rval option) : string = match o with Some r -> show r | None -> "U"
let show_err (e : err) : string =
  match e with
  | ETypeError -> "TypeError" | EValueError -> "ValueError" | EKeyError -> "KeyError" | EIndexError -> "IndexError"
  | EFrozenInstanceError -> "FrozenInstanceError" | EAttributeError -> "AttributeError" | EOutOfFuel -> "OutOfFuel"
let show_obs (((((r, d), k), _), ok) : observation) : string =
  show r ^ "," ^ show d ^ "," ^ show_key k ^ "," ^ (if ok then "1" else "0")

(* the id function handed to the model (a parameter of the theorems): a constant.
   Which objects get equal computed ids is decided by the git manifests (C03-C05), not by C11;
   with a constant, equality of two objects is decided by their other eq fields, as in the code
   (the manifest is a function of those). *)
let hid (_ : rval) : n list = [n_of_int 1; n_of_int 42]
let hpy (_ : rval) : n = n_of_int 0

let variant_of s = if s = "old" then Old else if s = "popinplace" then PopInPlace
                    else if s = "subclasscopy" then SubclassCopy else New
let b01 b = if b then "1" else "0"
let show_kind k = match k with KChecked -> "checked" | KFreezeDict -> "freezedict" | KTuplify -> "tuplify" | KUnchecked -> "unchecked"

let () = serve (function
  | ["run"; var; fuel; rt; cls; st; args; steps; watch] ->
      let route = if rt = "fromdict" then FromDict else Ctor in
      (match run_script hid hpy (variant_of var) (nat_of_int (int_of_string fuel)) route (atom_of_hex cls)
               (parse_store st) (parse_args args) (parse_steps steps) (parse_args watch) with
       | Err e -> "err " ^ show_err e
       | Ok (((o0, l), wb), wa) ->
           "ok " ^ String.concat " " (show_obs o0 :: List.map (fun (e, o) ->
             (match e with None -> "-" | Some e -> show_err e) ^ "/" ^ show_obs o) l
             @ List.map (fun o -> "wb:" ^ show_obs o) wb @ List.map (fun o -> "wa:" ^ show_obs o) wa))
  | ["twins"; var; fuel; cls; st; a1; a2] ->
      (match run_twins hid (variant_of var) (nat_of_int (int_of_string fuel)) (atom_of_hex cls)
               (parse_store st) (parse_args a1) (parse_args a2) with
       | Err e -> "err " ^ show_err e
       | Ok (((e12, e21), k1), k2) -> "ok " ^ b01 e12 ^ " " ^ b01 e21 ^ " " ^ show_key k1 ^ " " ^ show_key k2)
  | ["tables"] -> "ok " ^ b01 (eq_hash_coherent aLL_CLASSES) ^ " " ^ b01 (arg_kinds_coherent aLL_CLASSES)
  | ["kinds"] ->
      "ok " ^ String.concat "," (List.concat_map (fun (c, rows) ->
        List.map (fun row ->
          let ((((name, _), _), _), _) = row in
          hex_of_atom c ^ "." ^ hex_of_atom name ^ "=" ^ show_kind (arg_kind c name)
          ^ (if is_rebuild c name then "+rebuild" else "")) rows) aLL_CLASSES)
  | _ -> "err bad_request")
