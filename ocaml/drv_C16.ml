(* C16 driver.  Integers are decimal (arbitrary size), byte strings hex.
   pyval  : i<dec> | bT | bF | o            (int, bool, any other object)
   tsrepr : missing | other | int:<pyval> | dict:<pyval|absent>:<pyval|absent>
   Requests:
     ts <pyval> <pyval>                      Timestamp(seconds, microseconds); format_date; parse_date of it
     num <pyval> <pyval> <off> <T|F>         from_numeric_offset(Timestamp(..), off, negative_utc)
     grid <lo> <n>                           from_numeric_offset(Timestamp(0,0), off, neg) for off in [lo,lo+n), neg in F,T
     dnew <tsrepr> <hex|nonbytes>            from_dict({"timestamp":..,"offset_bytes":..})
     dold <tsrepr> <off|absent> <T|F|absent> from_dict({"timestamp":..,"offset":..,"negative_utc":..})
     dict <tsrepr> <hex|nonbytes|absent> <off|none|absent> <T|F|absent>   from_dict of a dict with any subset of the keys
     dt <epoch_us> <off_s>                   from_dict(aware datetime)
     naive | int <pyval> | other             from_dict(naive datetime | int/bool | other object)
     iso <epoch_us> <off_s> <T|F>            from_iso8601 after parse_date; flag = (tzname() == "-00:00")
     pob <hex>                               _parse_offset_bytes
   Answers:  ok <fields> | err <E>;  a TimestampWithTimezone is shown as
     <seconds> <microseconds> <offset_bytes> <offset_minutes|!E> <format_date> <author_date_part> <epoch_us,off_s|!E> *)
let err_name = function
  | ETimestampOverflow -> "TimestampOverflow" | EAttributeType -> "AttributeType" | EValue -> "Value"
  | EAssertion -> "Assertion" | EKey -> "Key" | EOverflow -> "Overflow" | EType -> "Type" | EUnmodelled -> "Unmodelled"
let pyval s =
  if s = "bT" then VBool true else if s = "bF" then VBool false else if s = "o" then VOther
  else VInt (z_of_decimal (String.sub s 1 (String.length s - 1)))
let opt_pyval s = if s = "absent" then None else Some (pyval s)
let tsrepr s =
  match String.split_on_char ':' s with
  | ["missing"] -> None
  | ["other"] -> Some TsOther
  | ["int"; v] -> Some (TsInt (pyval v))
  | ["dict"; a; b] -> Some (TsDict (opt_pyval a, opt_pyval b))
  | _ -> failwith "tsrepr"
let flag s = (s = "T")
let show_om = function Ok m -> decimal_of_z m | Err e -> "!" ^ err_name e
let show_td = function Ok d -> decimal_of_z d.epoch_us ^ "," ^ decimal_of_z d.off_s | Err e -> "!" ^ err_name e
let show_tstz (r : tstz result) =
  match r with
  | Err e -> "err " ^ err_name e
  | Ok x ->
      String.concat " " ["ok"; decimal_of_z x.ts.seconds; decimal_of_z x.ts.microseconds;
                         hex_of_bytes x.offset_bytes; show_om (offset_minutes x);
                         hex_of_bytes (format_date x.ts); hex_of_bytes (author_date_part x);
                         show_td (to_datetime x)]
let short (r : tstz result) =
  match r with
  | Err e -> err_name e
  | Ok x -> hex_of_bytes x.offset_bytes ^ ":" ^ show_om (offset_minutes x)
let () = serve (function
  | ["ts"; s; us] ->
      (match mk_timestamp (pyval s) (pyval us) with
       | Err e -> "err " ^ err_name e
       | Ok t ->
           let f = format_date t in
           "ok " ^ decimal_of_z t.seconds ^ " " ^ decimal_of_z t.microseconds ^ " " ^ hex_of_bytes f ^ " " ^
           (match parse_date f with
            | Some (a, b) -> decimal_of_z a ^ "," ^ decimal_of_z b
            | None -> "unparsed"))
  | ["num"; s; us; off; neg] ->
      (match mk_timestamp (pyval s) (pyval us) with
       | Err e -> "err " ^ err_name e
       | Ok t -> show_tstz (from_numeric_offset t (z_of_decimal off) (flag neg)))
  | ["grid"; lo; n] ->
      let t = { seconds = Z0; microseconds = Z0 } in
      let offs = z_range (z_of_decimal lo) (pos_of_int (int_of_string n)) in
      "ok " ^ String.concat "," (List.concat_map (fun off ->
        [short (from_numeric_offset t off false); short (from_numeric_offset t off true)]) offs)
  | ["dnew"; t; ob] -> show_tstz (from_dict (TRDict (tsrepr t, Some (if ob = "nonbytes" then None else Some (bytes_of_hex ob)), None, None)))
  | ["dold"; t; off; neg] ->
      show_tstz (from_dict (TRDict (tsrepr t, None,
                                    (if off = "absent" then None else Some (Some (z_of_decimal off))),
                                    (if neg = "absent" then None else Some (flag neg)))))
  | ["dict"; t; ob; off; neg] ->
      show_tstz (from_dict (TRDict (tsrepr t,
                                    (if ob = "absent" then None else if ob = "nonbytes" then Some None else Some (Some (bytes_of_hex ob))),
                                    (if off = "absent" then None else if off = "none" then Some None else Some (Some (z_of_decimal off))),
                                    (if neg = "absent" then None else Some (flag neg)))))
  | ["dt"; e; o] -> show_tstz (from_dict (TRDatetime { epoch_us = z_of_decimal e; off_s = z_of_decimal o }))
  | ["naive"] -> show_tstz (from_dict TRNaive)
  | ["int"; v] -> show_tstz (from_dict (TRInt (pyval v)))
  | ["other"] -> show_tstz (from_dict TROther)
  | ["iso"; e; o; f] -> show_tstz (from_iso8601_parsed { epoch_us = z_of_decimal e; off_s = z_of_decimal o } (flag f))
  | ["pob"; h] -> (match parse_offset_bytes (bytes_of_hex h) with Ok m -> "ok " ^ decimal_of_z m | Err e -> "err " ^ err_name e)
  | _ -> "err bad_request")
