(* Shared (de)serialisation between the line protocol and the extracted
   datatypes.  No logic.  The extracted module is opened by the generated
   prelude (`open Model`), so `positive`, `n`, `z`, `nat` below are the
   extracted inductives (ExtrOcamlBasic does not touch them). *)

let rec pos_of_int (i : int) : positive =
  if i <= 1 then XH else if i land 1 = 0 then XO (pos_of_int (i lsr 1)) else XI (pos_of_int (i lsr 1))
let n_of_int (i : int) : n = if i <= 0 then N0 else Npos (pos_of_int i)
let rec int_of_pos (p : positive) : int =
  match p with XH -> 1 | XO q -> 2 * int_of_pos q | XI q -> 2 * int_of_pos q + 1
let int_of_n (x : n) : int = match x with N0 -> 0 | Npos p -> int_of_pos p
let z_of_int (i : int) : z = if i = 0 then Z0 else if i > 0 then Zpos (pos_of_int i) else Zneg (pos_of_int (-i))
let int_of_z (x : z) : int = match x with Z0 -> 0 | Zpos p -> int_of_pos p | Zneg p -> - (int_of_pos p)
let rec nat_of_int (i : int) : nat = if i <= 0 then O else S (nat_of_int (i - 1))
let rec int_of_nat (x : nat) : int = match x with O -> 0 | S y -> 1 + int_of_nat y

(* arbitrary-size decimal <-> positive, by schoolbook arithmetic on digit lists *)
let n_of_decimal (s : string) : n =
  (* simple and obviously right: Horner in the extracted N would need the model's N.mul; do it on bits *)
  let digits = List.init (String.length s) (fun i -> Char.code s.[i] - 48) in
  let is_zero l = List.for_all (fun d -> d = 0) l in
  let div2 l =
    let rem = ref 0 in
    let q = List.map (fun d -> let cur = !rem * 10 + d in rem := cur land 1; cur lsr 1) l in
    (q, !rem) in
  let rec lsb_bits l acc = if is_zero l then List.rev acc else let (q, r) = div2 l in lsb_bits q (r :: acc) in
  let bits = lsb_bits digits [] in   (* least significant first *)
  let rec build = function
    | [] -> None
    | b :: rest -> (match build rest with
                    | None -> if b = 1 then Some XH else None
                    | Some p -> Some (if b = 1 then XI p else XO p)) in
  match build bits with None -> N0 | Some p -> Npos p
let decimal_of_pos (p : positive) : string =
  (* double-and-add on a little-endian decimal digit list *)
  let rec bits p acc = match p with XH -> 1 :: acc | XO q -> bits q (0 :: acc) | XI q -> bits q (1 :: acc) in
  let msb_first = bits p [] in
  let double_add l b =
    let carry = ref b in
    let l' = List.map (fun d -> let v = 2 * d + !carry in carry := v / 10; v mod 10) l in
    if !carry > 0 then l' @ [!carry] else l' in
  let le = List.fold_left double_add [0] msb_first in
  let s = String.concat "" (List.rev_map string_of_int le) in
  (* strip leading zeros *)
  let i = ref 0 in
  while !i < String.length s - 1 && s.[!i] = '0' do incr i done;
  String.sub s !i (String.length s - !i)
let decimal_of_n (x : n) = match x with N0 -> "0" | Npos p -> decimal_of_pos p
let z_of_decimal (s : string) : z =
  if String.length s > 0 && s.[0] = '-' then
    (match n_of_decimal (String.sub s 1 (String.length s - 1)) with N0 -> Z0 | Npos p -> Zneg p)
  else (match n_of_decimal s with N0 -> Z0 | Npos p -> Zpos p)
let decimal_of_z (x : z) = match x with Z0 -> "0" | Zpos p -> decimal_of_pos p | Zneg p -> "-" ^ decimal_of_pos p

(* byte strings are lists of N (each < 256) in the model; on the wire: hex,
   "." for the empty string, "-" for None *)
let bytes_of_hex (s : string) : n list =
  if s = "." then [] else
  List.init (String.length s / 2) (fun i -> n_of_int (int_of_string ("0x" ^ String.sub s (2 * i) 2)))
let hex_of_bytes (l : n list) : string =
  if l = [] then "." else String.concat "" (List.map (fun b -> Printf.sprintf "%02x" (int_of_n b)) l)
let opt_bytes_of_hex (s : string) : n list option = if s = "-" then None else Some (bytes_of_hex s)
let hex_of_opt_bytes (o : n list option) : string = match o with None -> "-" | Some l -> hex_of_bytes l

let split_on (c : char) (s : string) : string list =
  if s = "" then [] else String.split_on_char c s
let words (s : string) : string list = List.filter (fun w -> w <> "") (String.split_on_char ' ' s)

(* main loop: one request per line, one answer per line *)
let serve (handle : string list -> string) : unit =
  try
    while true do
      let line = input_line stdin in
      let ans = (try handle (words line) with
                 | Stack_overflow -> "err stack_overflow"
                 | e -> "err driver_exception " ^ (String.map (fun c -> if c = '\n' then ' ' else c) (Printexc.to_string e))) in
      print_string ans; print_char '\n'
    done
  with End_of_file -> ()
