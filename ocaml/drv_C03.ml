(* C03 driver.
     rev <message|-> <author|-> <date|-> <committer|-> <cdate|-> <directory> <parents p,p|.> <extra k:v|k:v or .> <metaextra - or k:v|.. or .> [<raw manifest|->]
         -> ok <manifest hex> <sha1 hex> <extra after post-init> <wf_extra 0|1> <manifest after post-init>
               <metadata extra headers after post-init: - or k:v|.. or .> <id = rev_compute_hash sha1 r when a raw manifest is given, else '=' (C03_id_is_commit_hash: the sha1 above)>
          | err ValueError
     pcommit <manifest hex> -> ok <tree> <parents> <author|-> <committer|-> <extra> <message|-> | none *)
let parse_date (s : string) : tstz option =
  if s = "-" then None else
  match String.split_on_char ':' s with
  | [sec; us; off] -> Some { ts = { seconds = z_of_decimal sec; microseconds = z_of_decimal us }; offset_bytes = bytes_of_hex off }
  | _ -> failwith "date"
let parse_person (s : string) : person option =
  if s = "-" then None else Some { fullname = bytes_of_hex s; p_name = None; p_email = None }
let parse_headers s =
  if s = "." then [] else
  List.map (fun kv -> match String.split_on_char ':' kv with [k; v] -> (bytes_of_hex k, bytes_of_hex v) | _ -> failwith "hdr")
    (String.split_on_char '|' s)
let show_headers hs =
  if hs = [] then "." else String.concat "|" (List.map (fun (k, v) -> hex_of_bytes k ^ ":" ^ hex_of_bytes v) hs)
let show_list l = if l = [] then "." else String.concat "," (List.map hex_of_bytes l)
let rev msg au dt co cdt dir ps ex mex raw =
  let r = { v_message = opt_bytes_of_hex msg; v_author = parse_person au; v_committer = parse_person co;
            v_date = parse_date dt; v_committer_date = parse_date cdt; v_type = RtGit;
            v_directory = bytes_of_hex dir; v_synthetic = false;
            v_meta_extra = (if mex = "-" then None else Some (parse_headers mex)); v_meta_other = [];
            v_parents = (if ps = "." then [] else List.map bytes_of_hex (String.split_on_char ',' ps));
            v_extra_headers = parse_headers ex; v_raw_manifest = opt_bytes_of_hex raw } in
  if not (revision_valid r) then "err ValueError" else
  let m = rev_manifest r in
  let r' = post_init r in
  String.concat " " ["ok"; hex_of_bytes m; hex_of_bytes (sha1 m); show_headers r'.v_extra_headers;
                     (if wf_extra (effective_extra r) then "1" else "0");
                     hex_of_bytes (rev_manifest r');
                     (match r'.v_meta_extra with None -> "-" | Some l -> show_headers l);
                     (if raw = "-" then "=" else hex_of_bytes (rev_compute_hash sha1 r))]
let () = serve (function
  | ["rev"; msg; au; dt; co; cdt; dir; ps; ex; mex] -> rev msg au dt co cdt dir ps ex mex "-"
  | ["rev"; msg; au; dt; co; cdt; dir; ps; ex; mex; raw] -> rev msg au dt co cdt dir ps ex mex raw
  | ["pcommit"; m] ->
      (match parse_commit (bytes_of_hex m) with
       | Some f -> String.concat " " ["ok"; hex_of_bytes f.c_tree; show_list f.c_parents; hex_of_opt_bytes f.c_author;
                                      hex_of_opt_bytes f.c_committer; show_headers f.c_extra; hex_of_opt_bytes f.c_message]
       | None -> "none")
  | _ -> "err bad_request")
