(* C09 driver.  Requests:
     s <lim> <text>   -> C=<parse_core> X=<parse_ext> Q=<parse_q> P=<print_q of the parsed value|->
                         RR=<parse_q of P|-> L=<lang_core><lang_ext><lang_q> W=<within_limit>
     unquote <text> | unq2b <text> | quoteb <hex> | quote <text> | utf8dec <hex> | utf8enc <text> | wstable *)
(* --- (de)serialisation shared by drv_C08.ml and drv_C09.ml (kept textually identical).
   text  = code points, decimal, ','-separated; "." = empty; "-" = None
   bytes = hex ("." empty, "-" None);  type = plain ASCII word
   core  = ty:hex | "-" ;  lines = a | a:b | "-" (bare) ;  lim = decimal *)
let text_of_tok (s : String.t) : n list =
  if s = "." then [] else List.map (fun p -> n_of_int (int_of_string p)) (String.split_on_char ',' s)
let tok_of_text (l : n list) : String.t =
  if l = [] then "." else String.concat "," (List.map (fun c -> string_of_int (int_of_n c)) l)
let opt_text_of_tok s = if s = "-" then None else Some (text_of_tok s)
let tok_of_opt_text o = match o with None -> "-" | Some l -> tok_of_text l
let ascii_text (s : String.t) : n list = List.init (String.length s) (fun i -> n_of_int (Char.code s.[i]))
let word_of_text (l : n list) : String.t =
  if l = [] then "." else String.concat "" (List.map (fun c -> let i = int_of_n c in
    if i > 32 && i < 127 && i <> 58 && i <> 47 then String.make 1 (Char.chr i) else Printf.sprintf "\\u%04x" i) l)
let core_of_tok s = match String.split_on_char ':' s with
  | [t; h] -> { c_ty = (if t = "." then [] else ascii_text t); c_oid = bytes_of_hex h }
  | _ -> failwith "core"
let opt_core_of_tok s = if s = "-" then None else Some (core_of_tok s)
let tok_of_core c = word_of_text c.c_ty ^ ":" ^ hex_of_bytes c.c_oid
let tok_of_opt_core o = match o with None -> "-" | Some c -> tok_of_core c
let lines_of_tok s = if s = "-" then None else
  match String.split_on_char ':' s with
  | [a] -> Some (z_of_decimal a, None)
  | [a; b] -> Some (z_of_decimal a, Some (z_of_decimal b))
  | _ -> failwith "lines"
let tok_of_lines o = match o with
  | None -> "-"
  | Some (a, None) -> decimal_of_z a
  | Some (a, Some b) -> decimal_of_z a ^ ":" ^ decimal_of_z b
let err_name e = match e with
  | EValidation -> "ValidationError" | EValue -> "ValueError" | EType -> "TypeError" | EAssertion -> "AssertionError"
let show_res show r = match r with Ok v -> "ok=" ^ show v | Err e -> "err=" ^ err_name e
let show_q v = String.concat "/" [word_of_text v.q_ty; hex_of_bytes v.q_oid; tok_of_opt_text v.q_origin;
  tok_of_opt_core v.q_visit; tok_of_opt_core v.q_anchor; hex_of_opt_bytes v.q_path; tok_of_lines v.q_lines]
let tf b = if b then "t" else "f"
let () = serve (function
  | ["s"; lim; t] ->
      let lim = n_of_int (int_of_string lim) in
      let t = text_of_tok t in
      let q = parse_q lim t in
      let p = (match q with Ok v -> Some (print_q lim v) | Err _ -> None) in
      String.concat " " [
        "C=" ^ show_res tok_of_core (parse_core t);
        "X=" ^ show_res tok_of_core (parse_ext t);
        "Q=" ^ show_res show_q q;
        "P=" ^ (match p with None -> "-" | Some r -> show_res tok_of_text r);
        "RR=" ^ (match p with Some (Ok s) -> show_res show_q (parse_q lim s) | _ -> "-");
        "L=" ^ tf (lang_core t) ^ tf (lang_ext t) ^ tf (lang_q t);
        "W=" ^ tf (within_limit lim t) ]
  | ["unquote"; t] -> tok_of_text (unquote (text_of_tok t))
  | ["unq2b"; t] -> (match unquote_to_bytes (text_of_tok t) with Some b -> hex_of_bytes b | None -> "err")
  | ["quoteb"; h] -> tok_of_text (quote_from_bytes (bytes_of_hex h))
  | ["quote"; t] -> (match quote_text (text_of_tok t) with Some q -> tok_of_text q | None -> "err")
  | ["utf8dec"; h] -> tok_of_text (utf8_decode_replace (bytes_of_hex h))
  | ["utf8enc"; t] -> (match utf8_encode (text_of_tok t) with Some b -> hex_of_bytes b | None -> "err")
  | ["wstable"] -> tok_of_text wS_TABLE
  | _ -> "err bad_request")
