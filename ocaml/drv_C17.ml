(* C17 driver.  Requests:
     run <sample_size> fifo|lifo first|last|replay <contents> <skipped> <dirs> <missing> <samples>
         -> ok <contents> <skipped> <dirs> <events> <queries> | err fuel | err keyerror | err badsample
     closed <contents> <skipped> <dirs> <missing>  -> ok true|false
   <contents>,<skipped>,<missing> = id,id,... ("." when empty); <dirs> = id:c,c|id|... ;
   <samples> = id,id|-|id (one item per round, "-" = no draw in that round);
   <events> = id+ / id- joined by ","; <queries> = kind:id,id joined by "/" *)
let parse_ids s = if s = "." || s = "-" then [] else List.map (fun p -> n_of_int (int_of_string p)) (String.split_on_char ',' s)
let parse_dir (s : string) =
  match String.split_on_char ':' s with
  | [i] -> (n_of_int (int_of_string i), [])
  | [i; cs] -> (n_of_int (int_of_string i), parse_ids cs)
  | _ -> failwith "dir"
let parse_dirs s = if s = "." then [] else List.map parse_dir (String.split_on_char '|' s)
let parse_samples s = if s = "." then [] else List.map parse_ids (String.split_on_char '|' s)
let show_ids l = if l = [] then "." else String.concat "," (List.map (fun x -> string_of_int (int_of_n x)) l)
let show_events l =
  if l = [] then "." else
  String.concat "," (List.map (fun (x, b) -> string_of_int (int_of_n x) ^ (if b then "+" else "-")) l)
let show_queries l =
  if l = [] then "." else
  String.concat "/" (List.map (fun (k, ids) -> string_of_int (int_of_n k) ^ ":" ^ show_ids ids) l)
let () = serve (function
  | ["run"; ss; pk; sm; c; s; d; m; smp] ->
      let ssn = n_of_int (int_of_string ss) in
      let pick = if pk = "lifo" then pick_lifo else pick_fifo in
      let sampler = (match sm with
                     | "first" -> sampler_first ssn
                     | "last" -> sampler_last ssn
                     | _ -> sampler_replay (parse_samples smp)) in
      let miss = parse_ids m in
      (match filter_known_objects ssn sampler pick (fun x -> memN x miss) (parse_ids c) (parse_ids s) (parse_dirs d) with
       | DiscOk (rc, rs, rd, st) ->
           "ok " ^ show_ids rc ^ " " ^ show_ids rs ^ " " ^ show_ids rd ^ " " ^ show_events st.events ^ " " ^ show_queries st.queries
       | DiscOutOfFuel -> "err fuel"
       | DiscKeyError -> "err keyerror"
       | DiscBadSample -> "err badsample")
  | ["closed"; c; s; d; m] ->
      let miss = parse_ids m in
      if closedb (fun x -> memN x miss) (parse_ids c) (parse_ids s) (parse_dirs d) then "ok true" else "ok false"
  | _ -> "err bad_request")
